"""C17 — progress: wait-free and lock-free operations never wait on other threads (structural part)."""
from .. import ir, mm, pat, paths
from ..core import Broken
from ..flavors import FL

META = {
    "explanation": "On the flattened, constant-specialised IR of each documented operation: wait-free operations have an acyclic CFG and reach no blocking call (poll, futex wait, mutex, "
                   "join, sleep); hash-table lookups/traversals write no shared memory, reach no blocking call and every cycle advances through a ->next load whose address changes per "
                   "iteration; lock-free operations reach no blocking call and contain no spin cycle (a cycle without any store/RMW/cmpxchg to shared memory whose loads all have loop-invariant "
                   "addresses, i.e. one that can only end when another thread writes); the *_nonblocking variants are acyclic, reach no blocking call and return WOULDBLOCK instead.",
    "not_decided": "bounded own-steps as a scheduler-quantified claim (e.g. that a lock-free retry loop is only re-entered when another thread made progress)",
}

META["explanation"] += " " + 'Also: retry discipline of lock-free operations: every restart edge of a retry loop is preceded, in that iteration, by an atomic update of shared memory (own or helping cmpxchg); one hand-confirmed exemption.'

WAITFREE = [("cds", "cds_wfcq_enqueue"), ("cds", "cds_wfs_push"), ("cds", "__cds_wfs_pop_all"), ("cds", "__cds_lfs_pop_all"), ("cds", "cds_wfs_empty"),
            ("cds", "cds_wfcq_empty"), ("cds", "cds_lfs_empty"),
            ("memb", "urcu_memb_read_lock"), ("memb", "urcu_memb_read_unlock"), ("mb", "urcu_mb_read_lock"), ("mb", "urcu_mb_read_unlock"),
            ("qsbr", "urcu_qsbr_read_lock"), ("qsbr", "urcu_qsbr_read_unlock"), ("bp", "urcu_bp_read_lock"), ("bp", "urcu_bp_read_unlock")]
READERS = [("cds", "cds_lfht_lookup"), ("cds", "cds_lfht_next"), ("cds", "cds_lfht_next_duplicate"), ("cds", "cds_lfht_first")]
LOCKFREE = [("cds", "cds_lfs_push"), ("cds", "__cds_lfs_pop"), ("cds", "cds_lfs_push_rcu"), ("cds", "cds_lfs_pop_rcu"), ("cds", "cds_lfq_enqueue_rcu"), ("cds", "cds_lfq_dequeue_rcu"),
            ("cds", "cds_lfht_add"), ("cds", "cds_lfht_add_unique"), ("cds", "cds_lfht_add_replace"), ("cds", "cds_lfht_replace"), ("cds", "cds_lfht_del")]
NONBLOCKING = [("cds", "__cds_wfcq_dequeue_nonblocking"), ("cds", "__cds_wfcq_dequeue_with_state_nonblocking"), ("cds", "__cds_wfcq_splice_nonblocking"),
               ("cds", "__cds_wfcq_first_nonblocking"), ("cds", "__cds_wfcq_next_nonblocking"), ("cds", "__cds_wfs_pop_nonblocking"),
               ("cds", "__cds_wfs_pop_with_state_nonblocking"), ("cds", "cds_wfs_next_nonblocking")]


def registered_edges(f):
    """edges of the bp unregistered path (TLS reader pointer == NULL): pruned, the property speaks of a registered thread"""
    out = set()
    for t, s, a in pat.branch_edges_on(f, lambda a: a[0] == "eq" and a[2] == ("c", 0) and a[1][0] == "load" and a[1][1] == "@urcu_bp_reader"):
        out.add((t.blk.id, s))
    return out


def reachable_insts(f, edge_ok=None):
    ids = f.reachable_set([f.entry()], edge_ok=edge_ok, include_start=True)
    return [i for i in f.all_insts() if i.id in ids]


def blocking_reach(ctx, lib, f, edge_ok=None, _seen=None):
    """first blocking call reachable from f (through defined callees), as a list of call sites, or None"""
    m = f.mod
    seen = _seen if _seen is not None else set()
    if f.name in seen:
        return None
    seen.add(f.name)
    for i in reachable_insts(f, edge_ok):
        if mm.is_blocking(i):
            return [i]
        if i.op == "call":
            g = m.fn(i.callee)
            if g is not None:
                sub = blocking_reach(ctx, lib, g, None, seen)
                if sub:
                    return [i] + sub
    return None


def is_local(f, ap):
    b = ap["base"] if ap else None
    n = 0
    while b is not None and n < 8:
        if b[0] == "i":
            i = f.insts[b[1]]
            if i.op == "alloca":
                return True
            if i.op in ("gep",) or (i.op == "cast" and "ap" in i.d):
                b = i.d["ap"]["base"]
                n += 1
                continue
        if b[0] == "ce":
            b = b[1]["base"]
            n += 1
            continue
        break
    return False


def progress_inst(f, i, comp):
    """does instruction i, inside cycle `comp` (set of block ids), make the cycle something other than a pure wait?"""
    e = mm.effect_of(i) if i.op in ("load", "store", "rmw", "cmpxchg", "asm") else None
    if e is not None and e.ap is not None:
        if e.writes() and not is_local(f, e.ap):
            return True
        if e.kind == "load" and not is_local(f, e.ap):
            b = e.ap["base"]
            if b[0] == "i" and f.insts[b[1]].blk.id in comp:
                return True   # address changes per iteration: traversal
    if i.op == "call":
        g = f.mod.fn(i.callee)
        if g is not None or i.callee in ("malloc", "calloc", "free", "syscall"):
            return True
    if i.op == "icall":
        return True
    return False


def spin_cycles(f, edge_ok=None):
    """cycles made only of blocks without progress instructions (within each SCC)"""
    out = []
    for comp in f.sccs(edge_ok):
        quiet = set(b for b in comp if not any(progress_inst(f, i, comp) for i in f.blocks[b].insts))
        if not quiet:
            continue
        eo = lambda term, succ: term.blk.id in quiet and succ in quiet and (edge_ok is None or edge_ok(term, succ))
        for sub in f.sccs(eo):
            if sub <= quiet:
                out.append(sub)
    return out


def shared_writes(f, edge_ok=None, allow_fields=()):
    out = []
    for i in reachable_insts(f, edge_ok):
        e = mm.effect_of(i) if i.op in ("store", "rmw", "cmpxchg", "asm") else None
        if e is not None and e.ap is not None and e.writes() and not is_local(f, e.ap):
            if pat.last_field(e.ap) in allow_fields:
                continue
            out.append(i)
    return out


def _site(f, blocks):
    b = sorted(blocks)[0]
    return [f.blocks[b].insts[0].where()]


def rule_waitfree(ctx, rep):
    for lib, name in WAITFREE:
        f = ctx.fn(lib, name)
        rep.touch(f)
        eok = pat.block_edge_filter(registered_edges(f)) if lib == "bp" else None
        live = set(i.blk.id for i in reachable_insts(f, eok))
        cyc = [c for c in f.sccs(eok) if c & live]
        rep.check(not cyc, "C17.waitfree", "%s.%s.acyclic" % (lib, name), "control-flow graph is acyclic: bounded number of own steps",
                  "%s contains a loop: no longer wait-free by construction" % name, _site(f, cyc[0]) if cyc else [])
        blk = blocking_reach(ctx, lib, f, eok)
        rep.check(blk is None, "C17.waitfree", "%s.%s.noblock" % (lib, name), "no blocking call reachable", "blocking call reachable from %s" % name, [x.where() for x in (blk or [])])


def rule_readers(ctx, rep):
    for lib, name in READERS:
        f = ctx.fn(lib, name)
        rep.touch(f)
        wr = shared_writes(f, allow_fields=("cds_lfht_iter.node", "cds_lfht_iter.next"))
        rep.check(not wr, "C17.readers", name + ".read-only", "writes nothing but the caller's iterator", "%s writes shared memory" % name, [w.where() for w in wr[:2]])
        blk = blocking_reach(ctx, lib, f)
        rep.check(blk is None, "C17.readers", name + ".noblock", "no blocking call reachable", "blocking call reachable", [x.where() for x in (blk or [])])
        sp = spin_cycles(f)
        rep.check(not sp, "C17.readers", name + ".no-spin", "every cycle advances along ->next", "%s contains a cycle that only re-reads fixed locations (waits for another thread)" % name, _site(f, sp[0]) if sp else [])


def rule_lockfree(ctx, rep):
    for lib, name in LOCKFREE:
        f = ctx.fn(lib, name)
        rep.touch(f)
        blk = blocking_reach(ctx, lib, f)
        rep.check(blk is None, "C17.lockfree", name + ".noblock", "no blocking call reachable (directly or through callees)", "blocking call reachable from %s" % name, [x.where() for x in (blk or [])])
        sp = spin_cycles(f)
        rep.check(not sp, "C17.lockfree", name + ".no-spin", "no spin cycle: every cycle retries a cmpxchg/exchange or advances along a list",
                  "%s contains a cycle that only re-reads fixed locations until another thread writes them" % name, _site(f, sp[0]) if sp else [])
        pat.require(f.sccs(), "%s: expected retry loop vanished" % name) if name not in ("cds_lfht_replace",) else None


def rule_nonblocking(ctx, rep):
    for lib, name in NONBLOCKING:
        f = ctx.fn(lib, name)
        rep.touch(f)
        cyc = f.sccs()
        rep.check(not cyc, "C17.nonblocking", name + ".acyclic", "acyclic once specialised with blocking=0", "%s loops: the non-blocking variant waits" % name, _site(f, cyc[0]) if cyc else [])
        blk = blocking_reach(ctx, lib, f)
        rep.check(blk is None, "C17.nonblocking", name + ".noblock", "no blocking call reachable", "blocking call reachable from %s" % name, [x.where() for x in (blk or [])])
        # WOULDBLOCK (-1) is returned on some path (the transient states are reported, not waited for)
        r = f.rets()
        if name.startswith("__cds_wfcq") or "wfs_pop" in name or "wfs_next" in name:
            has_wb = False
            for x in r:
                if x.args:
                    e = ir.expr(f, x.args[0], 4, through_phi=True)
                    if ir.expr_contains(e, lambda z: z == ("c", -1)):
                        has_wb = True
            rep.check(has_wb, "C17.nonblocking", name + ".wouldblock", "can return WOULDBLOCK", "%s never returns WOULDBLOCK" % name, [f.name])


def rule_helping(ctx, rep):
    """lock-free enqueue must help a stalled enqueuer: when linking fails because another node is already linked
    behind the loaded tail, the loop advances q->tail itself before retrying (otherwise it spins on a suspended thread)"""
    from . import c12
    n0 = len(rep.results)
    c12.rule_enq(ctx, rep)
    keep = []
    for r in rep.results[n0:]:
        if "advance+help" in r["instance"] or "retry-after-help" in r["instance"] or "tail-only-cmpxchg" in r["instance"]:
            r["rule"] = "C17.helping"
            r["key"] = r["key"].replace("C12.enq", "C17.helping")
            if r["status"] != "pass":
                r["msg"] += " [progress: without the helping cmpxchg every other enqueue retries forever while the thread that linked its node is suspended]"
            keep.append(r)
    del rep.results[n0:]
    rep.results += keep
    pat.require(keep, "helping instances vanished")


# loops written in these functions may legitimately restart without an atomic update of their own; one reason each
RETRY_EXEMPT = {
    "cds_lfht_add_replace": "restarts only when the node just found was concurrently removed (its REMOVED flag was observed by _cds_lfht_replace); "
                            "the next _cds_lfht_add pass helps unlink that node (cmpxchg) or no longer meets it",
}


def back_edges(f):
    out = []
    for b in f.blocks:
        for s in b.succ:
            if f.bdom(s, b.id):
                out.append((b.id, s))
    return out


def natural_loop(f, latch, hdr):
    body = {hdr, latch}
    st = [latch]
    while st:
        x = st.pop()
        if x == hdr:
            continue
        for p in f.blocks[x].pred:
            if p not in body:
                body.add(p)
                st.append(p)
    return body


def is_traversal_edge(f, latch, hdr):
    """the back edge advances a cursor: some phi of the header receives, along this edge, a value derived from a load
    through that same phi (iter = iter->next)"""
    for p in f.blocks[hdr].insts:
        if p.op != "phi":
            continue
        for v, blk in p.d["inc"]:
            if blk != latch:
                continue
            e = ir.expr(f, v, 8)
            tag = "phi#%d" % p.id
            if ir.expr_contains(e, lambda z: z[0] == "load" and isinstance(z[1], str) and tag in z[1]):
                return True
    return False


def is_atomic_update(f, i):
    e = mm.effect_of(i) if i.op in ("rmw", "cmpxchg", "asm") else None
    return e is not None and e.ap is not None and e.is_rmw() and e.locked and not is_local(f, e.ap)


def rule_retry(ctx, rep):
    """Lock-free retry discipline: an operation goes round its retry loop again only after an atomic update of shared
    memory in that iteration - its own cmpxchg (which failed because another operation succeeded, or succeeded and left more to
    do) or a helping cmpxchg.  A restart edge reachable from the loop header without any atomic update is a wait on another
    thread (e.g. 'node already owned by a remover: retry' spins for as long as that remover is suspended)."""
    n = 0
    for lib, name in LOCKFREE:
        f = ctx.fn(lib, name)
        rep.touch(f)
        for latch, hdr in back_edges(f):
            t = f.blocks[latch].insts[-1]
            written_in = t.scope_chain[0]
            inst_name = "%s.loop@%s" % (name, written_in)
            if is_traversal_edge(f, latch, hdr):
                continue
            n += 1
            if written_in in RETRY_EXEMPT:
                rep.ok("C17.retry", inst_name + ".exempt", "hand-confirmed exception: " + RETRY_EXEMPT[written_in], [t.where()])
                continue
            body = natural_loop(f, latch, hdr)
            eok = lambda term, succ, body=body, hdr=hdr: succ in body and succ != hdr
            h0 = f.blocks[hdr].insts[0]
            hit, parent = f.reach([h0], [t], avoid=lambda i: is_atomic_update(f, i), edge_ok=eok, include_start=True)
            rep.paths += 1
            if hit is None:
                rep.ok("C17.retry", inst_name + ".l%d" % t.line, "every way round the retry loop passes an atomic update (cmpxchg/xchg/locked RMW) of shared memory", [t.where()])
            else:
                from ..core import path_sites
                rep.bad("C17.retry", inst_name + ".l%d" % t.line,
                        "the retry loop written in %s can go round again without any atomic update of shared memory: it neither helps nor lost a race in that "
                        "iteration, so it waits for another thread (not lock-free)" % written_in, path_sites(f.path_to(hit, parent)))
    pat.require(n >= 12, "only %d retry back-edges found in the lock-free operations (hand-confirmed: >= 12)" % n)


def rule_casretry(ctx, rep):
    """CAS retry discipline: inside a retry loop, the value a compare-and-swap expects on its next attempt is what the location
    was last seen to hold - the value the failed CAS returned, or a fresh load of the same field.  An expected value refreshed
    from a *different* location (e.g. ht->size for a CAS on ht->resize_target) can stay wrong for as long as another thread is
    suspended half-way, and the lock-free operation spins on it."""
    n = 0
    for lib, name in LOCKFREE:
        f = ctx.fn(lib, name)
        rep.touch(f)
        comps = f.sccs()
        for e in pat.accesses(f, None, ("cmpxchg",)):
            c = e.inst
            inl = [cp for cp in comps if c.blk.id in cp]
            if not inl or e.exp is None:
                continue
            comp = max(inl, key=len)
            fld = pat.last_field(e.ap)
            xv = ir.strip_casts(f, e.exp)
            x = f.inst_of(xv)
            if x is None or x.op != "phi":
                # expected value fixed before the loop (an argument / a snapshot taken outside): a failed attempt that goes round
                # again compares with the same stale value
                outside = (xv[0] == "a") or (x is not None and x.blk.id not in comp and x.op in ("load", "asm", "cmpxchg", "rmw", "call"))
                if outside:
                    fail = [(t.blk.id, s_) for t, s_, a in pat.branch_edges_on(f, lambda a: a[0] == "ne" and any(isinstance(z, tuple) and z[0] in ("asm", "cmpxchg") and z[-1] == c.id for z in (a[1], a[2])))]
                    again = any(s_ in comp and f.reach([f.blocks[s_].insts[0]], [c], include_start=True)[0] is not None for b_, s_ in fail)
                    if again:
                        n += 1
                        rep.bad("C17.casretry", "%s.%s@%d" % (name, (fld or "?").split(".")[-1], c.id), "the CAS on %s is retried after a failure with an expected value (%s) fixed before the loop: once another thread "
                                "changed the word the retry can never succeed - the operation spins for ever" % (fld, ir.expr_str(ir.expr(f, e.exp, 3))), [c.where()])
                continue
            leaves, seen, st = [], set(), [x]
            while st:
                ph = st.pop()
                if ph.id in seen:
                    continue
                seen.add(ph.id)
                for v, b in ph.d["inc"]:
                    if b not in comp:
                        continue            # initial value, from before the loop
                    vi = f.inst_of(ir.strip_casts(f, v))
                    if vi is not None and vi.op == "phi":
                        st.append(vi)
                    else:
                        leaves.append((v, vi))
            if not leaves:
                continue
            n += 1
            bad = []
            for v, vi in leaves:
                ok = False
                if vi is not None and vi.op in ("asm", "cmpxchg", "rmw"):
                    ve = mm.effect_of(vi)
                    ok = ve is not None and ve.ap is not None and pat.last_field(ve.ap) == fld
                elif vi is not None and vi.op == "load":
                    # a load from the thread's own stack (an iterator filled by a preceding search) carries a snapshot of the
                    # location, not another shared word
                    ok = pat.last_field(vi.d["ap"]) == fld or is_local(f, vi.d["ap"])
                if not ok:
                    bad.append(ir.expr_str(ir.expr(f, v, 3)))
            rep.check(not bad, "C17.casretry", "%s.%s@%d" % (name, (fld or "?").split(".")[-1], c.id), "on retry the CAS on %s expects the value it returned / a fresh load of that field" % fld,
                      "in its retry loop the CAS on %s takes its next expected value from %s: not the location's own last seen value - while another thread keeps that "
                      "other word unchanged (suspended mid-operation) the CAS fails for ever" % (fld, bad), [c.where()])
    pat.require(n >= 10, "only %d CAS retry loops found" % n)


def rule_wouldblock_deref(ctx, rep):
    """non-blocking entry points: a value known to be the WOULDBLOCK sentinel (-1) is returned, never followed as a pointer.
    On every branch edge that establishes `v == -1` for a loaded / awaited successor v, no access through v is reachable."""
    n = 0
    for lib, name in NONBLOCKING:
        f = ctx.fn(lib, name)
        rep.touch(f)
        for t, s_, a in pat.branch_edges_on(f, lambda a: a[0] == "eq" and a[2] == ("c", -1) and a[1][0] in ("select", "phi", "load", "call")):
            n += 1
            ids = set()
            if a[1][0] == "select":
                # the select instruction itself: find it among the function's instructions by its expression
                for i in f.all_insts():
                    if i.op == "select" and ir.expr(f, ["i", i.id], 6) == a[1]:
                        ids.add(i.id)
            elif a[1][0] == "phi":
                ids.add(a[1][1])
            elif a[1][0] == "load":
                ids.add(a[1][3])
            deref = [i for i in f.all_insts() if i.op in ("load", "store") and i.d.get("ap") and i.d["ap"]["base"][0] == "i" and i.d["ap"]["base"][1] in ids]
            hit, _ = f.reach([f.blocks[s_].insts[0]], deref, include_start=True) if deref else (None, None)
            rep.check(hit is None, "C17.wouldblock", "%s@%d" % (name, t.id), "the WOULDBLOCK sentinel is never dereferenced", "on the edge where the awaited successor is CDS_*_WOULDBLOCK (-1) the code goes on to access memory through it", [t.where()] + ([hit.where()] if hit is not None else []))
    pat.require(n >= 4, "only %d WOULDBLOCK tests found" % n)


META["explanation"] += " " + 'Also (round 14): no pure / const attribute on the queue / stack / hash-table prototypes.'

RULES = [
    ("C17.proto", lambda c, r: __import__("sa.attrs", fromlist=["x"]).rule_nopure(c, r, "C17.proto", '^_*cds_(wfs|lfs|wfcq|wfq|lfq|lfht)_', "queue / stack / hash-table", 60)),   # compiler-visible contract of the public prototypes: pure / const would let an optimised caller poll once
    ("C17.helping", rule_helping),
    ("C17.waitfree", rule_waitfree),
    ("C17.readers", rule_readers),
    ("C17.lockfree", rule_lockfree),
    ("C17.nonblocking", rule_nonblocking),
    ("C17.retry", rule_retry),
    ("C17.casretry", rule_casretry),
    ("C17.wouldblock", rule_wouldblock_deref),
    # "a correct result or WOULDBLOCK": the decision tables of the non-blocking iteration / dequeue entry points
    ("C17.result", lambda c, r: pat.shared(__import__("sa.rules.c11", fromlist=["x"]).rule_iter, "C17.result", lambda x: "nonblocking" in x["instance"] or x["status"] != "pass")(c, r)),
    ("C17.result", lambda c, r: pat.shared(__import__("sa.rules.c10", fromlist=["x"]).rule_iter, "C17.result", lambda x: "nonblocking" in x["instance"] or x["status"] != "pass")(c, r)),
    ("C17.filter", lambda c, r: __import__("sa.rules.lfht", fromlist=["x"]).rule_filter(c, r, "C17.filter")),   # a removed node handed back as a duplicate makes add_replace spin on it
]
FLOORS = {}
