"""Shared rule functions for the lock-free hash table (C05–C09).  Per-function view of liburcu-cds."""
from .. import ir, mm, pat, paths, lockset, pow2
from ..core import Broken

NEXT = "cds_lfht_node.next"
RH = "cds_lfht_node.reverse_hash"


def M(ctx):
    return ctx.mod("cds", "perfn")


def fn(ctx, name):
    f = M(ctx).fn(name)
    if f is None:
        raise Broken("anchor function %s vanished from liburcu-cds" % name)
    return f


class Bits:
    """flag bits of cds_lfht_node.next derived from their writers"""
    def __init__(self, ctx):
        d = fn(ctx, "_cds_lfht_del")
        ors = [e for e in pat.accesses(d, NEXT, ("rmw",)) if e.rop == "or"]
        xs = [e for e in pat.accesses(d, NEXT, ("xchg",))]
        pat.require(len(ors) == 1 and len(xs) == 1, "_cds_lfht_del: expected one `or` and one xchg on node->next (found %d/%d)" % (len(ors), len(xs)))
        self.REMOVED = ir.const_of(d, ors[0].val)
        xe = ir.expr(d, xs[0].val)
        pat.require(xe[0] == "bin" and xe[1] == "or" and xe[3][0] == "c", "_cds_lfht_del: xchg value is not (next | OWNER)")
        self.OWNER = xe[3][1]
        a = fn(ctx, "_cds_lfht_add")
        bs = set()
        for s in pat.stores(a, NEXT):
            e = ir.expr(a, s.args[0])
            if e[0] == "bin" and e[1] == "or" and e[3][0] == "c":
                bs.add(e[3][1])
        pat.require(len(bs) == 1, "_cds_lfht_add: bucket flag store not recognised %s" % bs)
        self.BUCKET = bs.pop()
        self.MASK = self.REMOVED | self.BUCKET | self.OWNER
        pat.require(sorted([self.REMOVED, self.BUCKET, self.OWNER]) == [1, 2, 4], "flag bits are %s" % ([self.REMOVED, self.BUCKET, self.OWNER],))


_B = {}


def bits(ctx):
    k = id(ctx)
    if k not in _B:
        _B.clear()
        _B[k] = Bits(ctx)
    return _B[k]


def gp_icalls(f):
    return [i for i in f.all_insts() if i.op == "icall" and (lambda e: e[0] == "load" and e[1].endswith("rcu_flavor_struct.update_synchronize_rcu"))(ir.expr(f, i.d["fp"]))]


def flavor_icalls(f, field):
    return [i for i in f.all_insts() if i.op == "icall" and (lambda e: e[0] == "load" and e[1].endswith("rcu_flavor_struct." + field))(ir.expr(f, i.d["fp"]))]


# ---------------------------------------------------------------------------
def rule_shrink(ctx, rep, rid):
    f = fn(ctx, "fini_table")
    rep.touch(f)
    szs = pat.stores(f, "cds_lfht.size")
    gps = gp_icalls(f)
    rm = pat.calls_opt(f, "remove_table") + [c for c in pat.calls_opt(f, "partition_resize_helper") if ir.expr(f, c.args[3]) == ("fn", "remove_table_partition")]
    fr = pat.calls(f, "cds_lfht_free_bucket_table")
    pat.require(szs and rm and fr, "fini_table anatomy (size store / remove_table / free_bucket_table)")
    if not gps:
        rep.bad(rid, "fini_table.GP", "fini_table frees bucket tables without any grace period", [fr[0].where()])
        return
    isgp = lambda i: i in gps
    rep.must_pass(rid, "fini_table.size≺GP≺unlink", f, szs, rm, isgp,
                  what="a grace period separates publishing the smaller size from unlinking the level's bucket nodes (in-flight adds that saw the old size finish first)")
    rep.must_pass(rid, "fini_table.unlink≺GP≺free", f, rm, fr, isgp,
                  what="a grace period separates unlinking a level's bucket nodes from freeing their table (readers standing on them have left)")
    rep.must_pass(rid, "fini_table.size≺unlink", f, [f.entry()], rm, lambda i: i in szs, include_start=True, what="the smaller size is published before the level is unlinked")
    # ≥compiler barrier (wmb) before the size store
    rep.must_pass(rid, "fini_table.wmb≺size", f, [f.entry()], szs, lambda i: mm.is_compiler(i, f.mod) or (i in szs and i.d["order"] in ("release", "seq_cst")),
                  include_start=True, what=">=compiler barrier before publishing the size")


def rule_grow(ctx, rep, rid):
    f = fn(ctx, "init_table")
    rep.touch(f)
    szs = pat.stores(f, "cds_lfht.size")
    al = pat.calls_opt(f, "cds_lfht_alloc_bucket_table")
    po = pat.calls_opt(f, "init_table_populate") + [c for c in pat.calls_opt(f, "partition_resize_helper") if ir.expr(f, c.args[3]) == ("fn", "init_table_populate_partition")]
    pat.require(szs, "init_table: size store")
    if not al or not po:
        rep.bad(rid, "init_table.anatomy", "init_table publishes a larger size without %s the new level" % ("allocating" if not al else "populating"), [szs[0].where()])
        return
    rep.must_pass(rid, "init_table.alloc≺populate", f, [f.entry()], po, lambda i: i in al, include_start=True, what="bucket table allocated before it is populated")
    rep.must_pass(rid, "init_table.populate≺size", f, al, szs, lambda i: i in po, what="level populated (bucket nodes linked) before the larger size is published")
    rep.must_pass(rid, "init_table.alloc≺size", f, [f.entry()], szs, lambda i: i in al, include_start=True, what="bucket memory allocated before the size that exposes it is published")
    for s in szs:
        ok = s.d["order"] in ("release", "seq_cst")
        if not ok:
            hit, _ = f.reach(po, [s], avoid=lambda i: mm.is_compiler(i, f.mod) and i.op != "call")
            ok = hit is None
        rep.check(ok, rid, "init_table.size-release", "size store is a release (populate data before RCU size)", "size store is not a release store: readers may index unpopulated buckets", [s.where()])
    # readers / updaters load size with acquire
    for name in ("cds_lfht_lookup", "cds_lfht_add", "cds_lfht_add_unique", "cds_lfht_add_replace", "cds_lfht_replace", "cds_lfht_del"):
        g = fn(ctx, name)
        rep.touch(g)
        lds = pat.loads(g, "cds_lfht.size")
        pat.require(lds, "%s: no load of ht->size" % name)
        bad = [l for l in lds if l.d["order"] not in ("acquire", "seq_cst")]
        rep.check(not bad, rid, name + ".size-acquire", "ht->size loaded with acquire (consume) ordering", "ht->size loaded without acquire/consume ordering", [b.where() for b in bad])


def rule_pub(ctx, rep, rid):
    a = fn(ctx, "_cds_lfht_add")
    rep.touch(a)
    B = bits(ctx)
    cx = [e for e in pat.accesses(a, NEXT, ("cmpxchg",))]
    ins = [e for e in cx if ir.expr_contains(ir.expr(a, e.new), lambda x: x == ("arg", 5))]
    pat.require(len(ins) == 1, "_cds_lfht_add: insertion cmpxchg not found (%d)" % len(ins))
    ins = ins[0]
    sts = [s for s in pat.stores(a, NEXT) if s.d["ap"]["base"] == ["a", 5]]
    if not sts:
        rep.bad(rid, "add.init-next", "_cds_lfht_add never initialises node->next before publishing the node", [ins.inst.where()])
    else:
        rep.must_pass(rid, "add.next≺publish", a, [a.entry()], [ins.inst], lambda i: i in sts, include_start=True, what="node->next is written before the cmpxchg that makes the node reachable")
        # the successor stored and the expected value of the cmpxchg are the same snapshot
        exp = ir.strip_casts(a, ins.exp)
        for s in sts:
            e = ir.expr(a, s.args[0])
            same = ir.expr_contains(e, lambda x: x == ir.expr(a, exp, 1) or (x[0] == "phi" and exp[0] == "i" and x[1] == exp[1]))
            rep.check(same, rid, "add.same-snapshot@%s" % s.short(), "node->next is the snapshot the cmpxchg expects", "node->next and the cmpxchg's expected value come from different snapshots", [s.where(), ins.inst.where()])
    rep.check(mm.effect_of(ins.inst).full, rid, "add.publish-full", "publishing cmpxchg is a full barrier", "publishing cmpxchg is not FULL", [ins.inst.where()])
    # failure retries from the bucket
    for name in ("cds_lfht_add", "cds_lfht_add_unique", "cds_lfht_add_replace"):
        g = fn(ctx, name)
        rep.touch(g)
        rh = [s for s in pat.stores(g, RH) if s.d["ap"]["base"][0] == "a"]
        sz = pat.loads(g, "cds_lfht.size")
        pat.require(rh and sz, "%s: reverse_hash store / size load" % name)
        rep.must_pass(rid, name + ".rh≺size", g, [g.entry()], sz, lambda i: i in rh, include_start=True, what="node->reverse_hash is set before the table size is sampled")


def _selected(f, B, rid, rep, name, need_hash):
    """iterator functions: a non-NULL node is selected only when neither REMOVED nor BUCKET is set"""
    st = [s for s in pat.stores(f, "cds_lfht_iter.node")]
    pat.require(st, "%s: no store to iter->node" % name)
    n = 0
    for s in st:
        v = ir.strip_casts(f, s.args[0])
        cands = []
        if v[0] == "i" and f.insts[v[1]].op == "phi":
            ph = f.insts[v[1]]
            for val, blk in ph.d["inc"]:
                if ir.const_of(f, val) == 0:
                    continue
                cands.append((val, blk, ph.blk.id))
        else:
            continue
        for val, blk, to in cands:
            n += 1
            term = f.blocks[blk].insts[-1]
            leaves = pat.dom_leaf_atoms(f, term)
            if term.op == "br" and len(term.d["succ"]) == 2 and term.d["succ"][0] != term.d["succ"][1]:
                ce = ir.expr(f, term.args[0], 8)
                pat.leaf_atoms(ce if ce[0] in ("icmp", "bin", "select") else ("icmp", "ne", ce, ("c", 0)), to == term.d["succ"][0], leaves)
            node = ir.expr(f, val, 2)

            def flag_clear(bit):
                return any(a[0] == "eq" and a[2] == ("c", 0) and a[1][0] == "bin" and a[1][1] == "and" and a[1][3] == ("c", bit) and a[1][2][0] == "load" and a[1][2][1].endswith(NEXT)
                           for a in leaves)
            ok_r, ok_b = flag_clear(B.REMOVED), flag_clear(B.BUCKET)
            rep.check(ok_r and ok_b, rid, "%s.returns-only-live-nodes" % name, "a node is returned only with REMOVED and BUCKET clear in the `next` word it was read with",
                      "%s can return a node whose next word has %s set (logically removed / bucket node handed to the user)" % (name, "REMOVED" if not ok_r else "BUCKET"),
                      [term.where()])
            if need_hash:
                ok_h = any(a[0] == "eq" and a[1][0] == "load" and a[1][1].endswith(RH) for a in leaves)
                ok_m = any(a[0] == "ne" and a[2] == ("c", 0) and a[1][0] == "icall" for a in leaves)
                rep.check(ok_h and ok_m, rid, "%s.hash+match" % name, "returned node has the requested reverse hash and matched", "lookup returns without hash equality / match", [term.where()])
    pat.require(n >= 1, "%s: no non-NULL node selection found" % name)
    # one consume load of next per iteration feeds flag tests and iter->next
    for s in pat.stores(f, "cds_lfht_iter.next"):
        pass


def rule_filter(ctx, rep, rid):
    B = bits(ctx)
    for name, need_hash in (("cds_lfht_lookup", True), ("cds_lfht_next_duplicate", False), ("cds_lfht_next", False)):
        f = fn(ctx, name)
        rep.touch(f)
        _selected(f, B, rid, rep, name, need_hash)
        # traversal loads of ->next are acquire/consume
        lds = [l for l in pat.loads(f, NEXT) if l.blk.id in set().union(*f.sccs()) if f.sccs()]
        bad = [l for l in lds if l.d["order"] not in ("acquire", "seq_cst")]
        rep.check(not bad and lds, rid, name + ".next-consume", "every ->next load inside the traversal loop is an acquire/consume load (%d)" % len(lds),
                  "traversal loads ->next without consume ordering", [b.where() for b in bad[:2]])
        # the walk ends only for one of the three documented reasons: end of list, a strictly greater reverse hash (order stop),
        # or a live matching node; in particular meeting a bucket node (or a removed node) is *not* an end - during a shrink the
        # retired bucket nodes stay linked in the middle of their parent's chain for a whole grace period, and during a grow the
        # new ones are linked before the size is published
        comp = f.sccs()[0] if f.sccs() else set()
        for b_ in sorted(comp):
            t_ = f.blocks[b_].insts[-1]
            for s_ in f.blocks[b_].succ:
                if s_ in comp:
                    continue
                if f.blocks[s_].insts and f.blocks[s_].insts[-1].op == "unreachable" or any(i.op == "call" and i.d.get("noreturn") for i in f.blocks[s_].insts):
                    continue        # assertion failure
                lv = []
                if t_.op == "br" and len(t_.d["succ"]) == 2:
                    e_ = ir.expr(f, t_.args[0], 8)
                    pat.leaf_atoms(e_ if e_[0] in ("icmp", "bin", "select") else ("icmp", "ne", e_, ("c", 0)), s_ == t_.d["succ"][0], lv)
                lv += pat.dom_leaf_atoms(f, t_) if not lv else []
                is_end = any(a[0] == "eq" and a[2] == ("c", 0) and a[1][0] == "bin" and a[1][1] == "and" and a[1][3] == ("c", ~B.MASK) for a in lv)
                stop = any(a[0] == "ugt" and a[1][0] == "load" and a[1][1].endswith(RH) for a in lv)
                found = any(a[0] == "ne" and a[2] == ("c", 0) and a[1][0] == "icall" for a in lv) or \
                    (name == "cds_lfht_next" and any(a[0] == "eq" and a[2] == ("c", 0) and a[1][0] == "bin" and a[1][3] == ("c", B.REMOVED) for a in lv))
                rep.check(is_end or stop or found, rid, "%s.exit@B%d" % (name, b_), "the walk is left only at the end of the list, past the searched reverse hash, or with a live matching node",
                          "%s leaves its walk on %s: not one of {end of list, greater reverse hash, live match} - e.g. stopping at a bucket node makes a lookup that overlaps "
                          "a grow/shrink miss resident nodes of the child bucket" % (name, [ir.atom_str(a) for a in lv][:3]), [t_.where()])
        # order stop: strictly greater reverse hash ends the search (lookup, next_duplicate)
        if name != "cds_lfht_next":
            stops = pat.branch_edges_on(f, lambda a: a[0] in ("ugt", "uge") and a[1][0] == "load" and a[1][1].endswith(RH))
            pat.require(stops, "%s: order-stop test not found" % name)
            for t, s, a in stops:
                rep.check(a[0] == "ugt", rid, name + ".order-stop-strict", "search stops only at a strictly greater reverse hash",
                          "search stops at an equal reverse hash (`>=`): nodes with the searched hash are never examined", [t.where()])


def rule_iter(ctx, rep, rid):
    """Iterator continuation discipline.  A traversal continues from the successor *snapshot* stored in the iterator
    (iter->next = the very word whose flag bits decided that iter->node is live), never from a fresh load of
    iter->node->next: after a concurrent replace that word is new_node|REMOVED|OWNER, and re-reading it makes one traversal
    return both the old and the new node of a key (C06) or follow a removed node (C05)."""
    for name in ("cds_lfht_lookup", "cds_lfht_next_duplicate", "cds_lfht_next"):
        f = fn(ctx, name)
        rep.touch(f)
        comps = f.sccs()
        pat.require(len(comps) == 1, "%s: expected exactly one traversal loop, found %d" % (name, len(comps)))
        comp = comps[0]
        inloop = [l for l in pat.loads(f, NEXT) if l.blk.id in comp]
        rep.check(len(inloop) == 1, rid, name + ".one-snapshot-per-node", "each visited node's next word is loaded exactly once per iteration",
                  "%d loads of ->next per iteration: flag tests and continuation may use different snapshots" % len(inloop), [l.where() for l in inloop[:3]])
        if len(inloop) != 1:
            continue
        snap = inloop[0]
        # continuation stored in the iterator is that snapshot (or NULL at the end)
        sts = pat.stores(f, "cds_lfht_iter.next")
        pat.require(len(sts) == 1, "%s: expected one store to iter->next" % name)
        v = ir.strip_casts(f, sts[0].args[0])
        srcs = set()
        if v[0] == "i" and f.insts[v[1]].op == "phi":
            for val, blk in f.insts[v[1]].d["inc"]:
                val = ir.strip_casts(f, val)
                srcs.add(("null",) if ir.const_of(f, val) == 0 else tuple(val))
        else:
            srcs.add(tuple(v))
        ok = srcs <= {("null",), ("i", snap.id)} and ("i", snap.id) in srcs
        rep.check(ok, rid, name + ".iter-next=snapshot", "iter->next receives the snapshot that was flag-tested (or NULL)",
                  "iter->next is set from %s, not from the flag-tested snapshot of node->next" % sorted(srcs), [sts[0].where()])
        if name == "cds_lfht_lookup":
            continue
        # where the walk starts: clear_flag(iter->next), and nothing re-reads iter->node->next before the loop
        hdrs = [b for b in comp if any(p not in comp for p in f.blocks[b].pred)]
        pat.require(len(hdrs) == 1, "%s: loop header" % name)
        h = hdrs[0]
        starts = []
        for ph in f.blocks[h].insts:
            if ph.op != "phi":
                continue
            for val, blk in ph.d["inc"]:
                if blk not in comp:
                    starts.append((ph, ir.expr(f, val, 6)))
        itarg = 3 if name == "cds_lfht_next_duplicate" else 1

        def from_iter_next(e):
            return e[0] == "bin" and e[1] == "and" and e[3] == ("c", -8) and e[2][0] == "load" and e[2][1] == "arg%d.cds_lfht_iter.next" % itarg
        cur = [(ph, e) for ph, e in starts if from_iter_next(e)]
        rep.check(bool(cur), rid, name + ".starts-at-iter-next", "the walk resumes at clear_flag(iter->next), the successor snapshot saved by the previous call",
                  "the walk does not resume from the saved snapshot iter->next: cursor starts at %s" % [ir.expr_str(e) for ph, e in starts], [f.blocks[h].insts[0].where()])
        pre = [l for l in pat.loads(f, NEXT) if l.blk.id not in comp and f.bdom(l.blk.id, h)]
        rep.check(not pre, rid, name + ".no-reload-of-current", "iter->node->next is not re-read when resuming", "iter->node->next is re-read before the walk resumes (sees a replacing node as successor)",
                  [l.where() for l in pre[:2]])
    f = fn(ctx, "cds_lfht_first")
    rep.touch(f)
    sts = pat.stores(f, "cds_lfht_iter.next")
    nx = pat.calls(f, "cds_lfht_next")
    pat.require(nx, "cds_lfht_first: call of cds_lfht_next")
    ok = False
    for s_ in sts:
        e = ir.expr(f, s_.args[0], 6)
        if e[0] == "load" and e[1].endswith(NEXT) and e[2] in ("acquire", "seq_cst") and f.dominates(s_, nx[0]):
            ld = f.insts[e[3]]
            b = ir.expr(f, ld.d["ap"]["base"], 4)
            if (b[0] == "call" and b[1] == "bucket_at") or b[0] == "icall":
                ok = True
    rep.check(ok, rid, "cds_lfht_first.seeds-iter-next", "first seeds iter->next with a consume load of bucket 0's next word, then delegates to cds_lfht_next",
              "cds_lfht_first does not seed iter->next from bucket_at(ht, 0)->next", [nx[0].where()])


def rule_chain(ctx, rep, rid):
    """bucket node is linked before any node of identical reverse hash: the early exit of the
    insertion scan for bucket_flag compares reverse hashes of iter and node (not the raw hash)"""
    a = fn(ctx, "_cds_lfht_add")
    rep.touch(a)
    found = 0
    for b in a.blocks:
        t = b.insts[-1]
        if t.op != "br" or len(b.succ) != 2:
            continue
        e = ir.expr(a, t.args[0], 8)
        lv = []
        pat.leaf_atoms(e if e[0] in ("icmp", "bin", "select") else ("icmp", "ne", e, ("c", 0)), True, lv)
        isflag = lambda x: x[0] == "ne" and x[1] == ("arg", 7) and x[2] == ("c", 0)
        cmpv = [x for x in lv if x[0] == "eq" and x[1][0] == "load" and x[1][1].endswith(RH)]
        # `bucket_flag && a == b` may be one merged condition or two nested branches
        if (any(isflag(x) for x in lv) and len(lv) >= 2) or (cmpv and any(isflag(x) for x in pat.dom_leaf_atoms(a, t))):
            found += 1
            ok = bool(cmpv) and all(x[2][0] == "load" and x[2][1].endswith(RH) and x[2][1].startswith("arg5") for x in cmpv)
            # ... and the node compared is the cursor itself (the one the order-stop test `iter->reverse_hash > node->reverse_hash` examines),
            # not the predecessor
            stops = pat.branch_edges_on(a, lambda z: z[0] in ("ugt", "ule") and z[1][0] == "load" and z[1][1].endswith(RH) and z[2][0] == "load" and z[2][1].startswith("arg5"))
            cursors = set(z[1][1] for _t, _s, z in stops)
            pat.require(cursors, "_cds_lfht_add: order-stop test not found")
            okc = bool(cmpv) and all(x[1][1] in cursors for x in cmpv)
            rep.check(okc, rid, "add.bucket-compares-cursor", "the identical-hash test for bucket nodes examines the cursor node (the one the order-stop test examines)",
                      "the identical-hash test for bucket nodes examines %s, not the cursor %s: a bucket created by a grow is linked after a resident node whose hash equals the bucket index, "
                      "which then is unreachable from its bucket" % ([x[1][1] for x in cmpv], sorted(cursors)), [t.where()])
            rep.check(ok, rid, "add.bucket-first-in-chain", "a bucket node is inserted before nodes whose reverse hash equals its own reverse hash",
                      "bucket placement compares iter->reverse_hash with %s instead of node->reverse_hash: after a grow, nodes whose hash equals the new bucket index are linked before their bucket and become invisible to lookups"
                      % (ir.expr_str(cmpv[0][2]) if cmpv else "nothing"), [t.where()])
    pat.require(found >= 1, "_cds_lfht_add: bucket_flag early-exit test not found")



def rule_bucket(ctx, rep, rid):
    f = fn(ctx, "lookup_bucket")
    rep.touch(f)
    c = pat.calls(f, "bucket_at")
    pat.require(len(c) == 1, "lookup_bucket: bucket_at call")
    e = ir.expr(f, c[0].args[1])
    ok = e[0] == "bin" and e[1] == "and" and set([e[2], e[3]]) == set([("arg", 2), ("bin", "sub", ("arg", 1), ("c", 1))]) or e == ("bin", "and", ("arg", 2), ("bin", "add", ("arg", 1), ("c", -1)))
    rep.check(ok, rid, "lookup_bucket.index", "bucket index = hash & (size - 1)", "bucket index is %s" % ir.expr_str(e), [c[0].where()])
    p = fn(ctx, "init_table_populate_partition")
    rep.touch(p)
    adds = pat.calls(p, "_cds_lfht_add")
    pat.require(len(adds) == 1, "populate: _cds_lfht_add call")
    ad = adds[0]
    j = ir.expr(p, ad.args[1])
    rhs = [s for s in pat.stores(p, RH)]
    pat.require(rhs, "populate: reverse_hash store")
    rv = ir.expr(p, rhs[0].args[0])
    okr = rv[0] == "call" and rv[1] == "bit_reverse_ulong" and ir.expr(p, p.insts[rv[2]].args[0]) == j
    rep.check(okr, rid, "populate.rh=bitrev(index)", "bucket j gets reverse_hash = bit_reverse(j)", "bucket reverse hash is %s for index %s" % (ir.expr_str(rv), ir.expr_str(j)), [rhs[0].where()])
    sz = ir.expr(p, ad.args[4])
    oks = sz[0] == "bin" and sz[1] == "shl" and sz[2] == ("c", 1)
    rep.check(oks and ir.const_of(p, ad.args[7]) == 1 and ir.const_of(p, ad.args[6]) == 0, rid, "populate.args", "bucket linked with size 1<<(order-1), bucket_flag=1, no unique check",
              "populate calls _cds_lfht_add(size=%s, unique=%s, bucket_flag=%s)" % (ir.expr_str(sz), ir.const_of(p, ad.args[6]), ir.const_of(p, ad.args[7])), [ad.where()])
    node = ir.expr(p, ad.args[5])
    b_at = ir.expr(p, rhs[0].d["ap"]["base"], 2) if False else None
    rep.must_pass(rid, "populate.rh≺add", p, [p.entry()], adds, lambda i: i in rhs, include_start=True, what="reverse_hash is set before the bucket is linked")
    # the level is published unconditionally once populate returns: the loops over a partition run over the whole range - no
    # exit depends on anything but the index and the range handed in (not on a shared word such as resize_target)
    for name, inner in (("init_table_populate_partition", "_cds_lfht_add"), ("remove_table_partition", "_cds_lfht_gc_bucket")):
        g = fn(ctx, name)
        rep.touch(g)
        work = pat.calls(g, inner)
        pat.require(work, "%s: %s call" % (name, inner))
        comps = [c for c in g.sccs() if work[0].blk.id in c and len(c) > 1 or (work[0].blk.id in c and work[0].blk.id in g.blocks[work[0].blk.id].succ)]
        pat.require(comps, "%s: loop around %s" % (name, inner))
        comp = comps[0]
        bad, nexit = [], 0
        for b in comp:
            for s_ in g.blocks[b].succ:
                if s_ in comp:
                    continue
                nexit += 1
                for a in ir.edge_atoms(g, b, s_):
                    if len(a) == 3 and any(isinstance(x, tuple) and ir.expr_contains(x, lambda z: z[0] in ("load", "call", "asm", "rmw", "cmpxchg")) for x in (a[1], a[2])):
                        bad.append((g.blocks[b].insts[-1], a))
        pat.require(nexit >= 1, "%s: loop exit" % name)
        rep.check(not bad, rid, name + ".covers-whole-range", "the partition loop ends only on its index bound (%d exit edge(s))" % nexit,
                  "the partition loop can end early on %s: the rest of the range is left %s while the caller goes on to publish the new size / free the level" %
                  (ir.atom_str(bad[0][1]) if bad else "", "unlinked (bucket nodes with next == NULL)" if "populate" in name else "linked"), [b_[0].where() for b_ in bad[:2]])


def rule_rs(ctx, rep, rid):
    for name, inner in (("init_table_populate_partition", "_cds_lfht_add"), ("remove_table_partition", "_cds_lfht_gc_bucket")):
        f = fn(ctx, name)
        rep.touch(f)
        lk, ul = flavor_icalls(f, "read_lock"), flavor_icalls(f, "read_unlock")
        work = pat.calls(f, inner) + [e.inst for e in pat.accesses(f, NEXT, ("rmw", "cmpxchg", "xchg"))]
        pat.require(work, "%s: no work found" % name)
        if not lk or not ul:
            rep.bad(rid, name + ".read-side", "%s modifies the table outside a read-side critical section (bucket nodes it walks may be reclaimed under it)" % name, [work[0].where()])
            continue
        rep.must_pass(rid, name + ".lock≺work", f, [f.entry()], work, lambda i: i in lk, include_start=True, what="read_lock precedes all table accesses")
        rep.must_pass(rid, name + ".work≺unlock", f, work, None, lambda i: i in ul, to_exit=True, what="read_unlock follows on every path")
        back, _ = f.reach(ul, work)
        rep.check(back is None, rid, name + ".no-work-after-unlock", "no table access after read_unlock", "table accessed after read_unlock", [u.where() for u in ul[:1]])


def rule_online(ctx, rep, rid):
    """A read-side section only protects a thread that is online: under QSBR rcu_read_lock() is empty and an offline thread is not
    waited for by grace periods.  Between flavor->thread_offline() and the next flavor->thread_online() no code of the hash table takes
    the read-side lock or touches a node's next word - directly or in anything it calls (function pointers handed on included)."""
    m = ctx.mod("cds", "perfn")
    fns = dict((g.name, g) for g in m.defined())

    def touches(g):
        return bool(flavor_icalls(g, "read_lock")) or bool(pat.accesses(g, NEXT, ("load", "store", "rmw", "cmpxchg", "xchg")))

    def callees(g):
        out = set()
        for i in g.all_insts():
            if i.op == "call" and i.callee in fns:
                out.add(i.callee)
            if i.op in ("call", "icall"):
                for a in i.args:
                    if isinstance(a, (list, tuple)) and len(a) >= 2 and a[0] == "f" and a[1] in fns:
                        out.add(a[1])
        return out

    memo = {}

    def closure_touches(name, seen=()):
        if name in memo:
            return memo[name]
        if name in seen:
            return None
        g = fns[name]
        r = name if touches(g) else None
        if r is None:
            for c in sorted(callees(g)):
                r = closure_touches(c, seen + (name,))
                if r:
                    break
        memo[name] = r
        return r

    n = 0
    for g in m.defined():
        offs = flavor_icalls(g, "thread_offline")
        if not offs:
            continue
        ons = flavor_icalls(g, "thread_online")
        rep.touch(g)
        for o in offs:
            n += 1
            # `if (was_online) thread_offline(); ...; if (was_online) thread_online();`: the edges that contradict the (immutable) condition
            # under which the thread went offline are not on any path that starts there
            guard = set((pat.NEGP[a[0]], a[1], a[2]) for a in pat.dom_leaf_atoms(g, o) if a[0] in pat.NEGP)
            contra = [(t.blk.id, s_) for t, s_, a in pat.branch_edges_on(g, lambda a: (a[0], a[1], a[2]) in guard)] if guard else []
            after = g.reachable_set([o], avoid=lambda i: i in ons, edge_ok=pat.block_edge_filter(contra))
            bad = None
            for i in g.all_insts():
                if i.id not in after or i is o:
                    continue
                if i.op == "icall" and i in flavor_icalls(g, "read_lock"):
                    bad = (i, "takes the read-side lock")
                elif i.op in ("load", "store", "rmw", "cmpxchg") and i.d.get("ap") and NEXT in pat.full_ap_fields(i.d["ap"]):
                    bad = (i, "reads / writes a node's next word")
                elif i.op == "call" and i.callee in fns and closure_touches(i.callee):
                    bad = (i, "calls %s, which reaches %s (read-side section / chain access)" % (fns[i.callee].srcname, fns[closure_touches(i.callee)].srcname))
                if bad:
                    break
            rep.check(bad is None, rid, "%s.offline@%d" % (g.srcname, o.line), "nothing between thread_offline() and thread_online() uses the table under RCU protection",
                      "%s %s while the thread is offline (after flavor->thread_offline()): for a QSBR table the read-side sections taken there protect nothing - a node removed, "
                      "waited for and freed by its owner is still dereferenced" % (g.srcname, bad[1] if bad else ""), [o.where()] + ([bad[0].where()] if bad else []))
    pat.require(n >= 1, "no thread_offline() in the hash table any more")
    # the converse, where the table itself decides: a caller found outside any read-side section (read_ongoing() == 0; for QSBR: offline)
    # is brought online before the emptiness walk reads the chain
    g = fn(ctx, "cds_lfht_is_empty")
    ro = flavor_icalls(g, "read_ongoing")
    if ro:
        rep.touch(g)
        off_edges = [(t, s_) for t, s_, a in pat.branch_edges_on(g, lambda a: a[0] == "eq" and a[2] == ("c", 0) and ir.expr_contains(a[1], lambda z: z[0] == "icall" or (z[0] == "call" and "read_ongoing" in str(z[1]))))]
        walk = [l for l in pat.loads(g, NEXT)]
        ons = flavor_icalls(g, "thread_online")
        lks = flavor_icalls(g, "read_lock")
        if off_edges and walk:
            for t, s_ in off_edges[:1]:
                st = g.blocks[s_].insts[0]
                rep.must_pass(rid, "is_empty.online≺walk", g, [st], walk, lambda i: i in ons, include_start=True, what="a caller that is not in a read-side section goes online before the emptiness walk")
                rep.must_pass(rid, "is_empty.lock≺walk", g, [st], walk, lambda i: i in lks, include_start=True, what="... and takes the read-side lock before the emptiness walk")
        else:
            rep.unk(rid, "is_empty.online≺walk", "cds_lfht_is_empty: the read_ongoing() test does not steer a branch this rule recognises")
        # ... and what it took on the caller's behalf it gives back on every way out: a result returned from inside the walk leaves the caller in a
        # read-side section (online, for QSBR) it does not know about - its next grace-period wait (a shrinking resize, synchronize_rcu) waits for itself
        unl = flavor_icalls(g, "read_unlock")
        offs = flavor_icalls(g, "thread_offline")
        if lks:
            rep.must_pass(rid, "is_empty.lock⇒unlock", g, lks, None, lambda i: i in unl, to_exit=True, edge_ok=pat.block_edge_filter(pat.contra_edges(g, lks[0])), what="every path from the read_lock taken for the emptiness walk to a return releases it")
        if ons:
            rep.must_pass(rid, "is_empty.online⇒offline", g, ons, None, lambda i: i in offs, to_exit=True, edge_ok=pat.block_edge_filter(pat.contra_edges(g, ons[0])), what="every path from thread_online() to a return puts the caller offline again")


def rule_rev(ctx, rep, rid):
    m = ctx.mod("cds", "perfn")
    g = m.globals.get("BitReverseTable256")
    if g is None or "init" not in g or g["init"][0] != "data":
        raise Broken("BitReverseTable256 initialiser not found")
    tab = g["init"][1]
    bad = [i for i in range(256) if i >= len(tab) or tab[i] != int("{:08b}".format(i)[::-1], 2)]
    rep.check(len(tab) == 256 and not bad, rid, "BitReverseTable256", "all 256 entries equal the bit reversal of their index",
              "BitReverseTable256[%s] is not the bit reversal of its index" % (bad[:4],), ["src/rculfhash.c: BitReverseTable256"])
    f = m.fn("bit_reverse_u64")
    if f is None:
        raise Broken("bit_reverse_u64 vanished")
    rep.touch(f)
    r = f.rets()[0]
    u8 = m.fn("bit_reverse_u8")
    if u8 is None:
        raise Broken("bit_reverse_u8 vanished")
    rep.touch(u8)
    e8 = ir.expr(u8, u8.rets()[0].args[0], 4)
    rep.check(e8[0] == "load" and e8[1].startswith("@BitReverseTable256") and "[" in e8[1], rid, "bit_reverse_u8", "bit_reverse_u8(x) = BitReverseTable256[x]",
              "bit_reverse_u8 returns %s" % ir.expr_str(e8), [u8.name])
    # result = OR over k of bit_reverse_u8(v >> 8k) << (56 - 8k)
    terms = []

    def walk(v):
        v = ir.strip_casts(f, v)
        i = f.inst_of(v)
        if i is not None and i.op == "bin" and i.d["bop"] == "or":
            walk(i.args[0])
            walk(i.args[1])
        else:
            terms.append(v)
    walk(r.args[0])
    got = set()
    ok = True
    for t in terms:
        i = f.inst_of(t)
        sh = 0
        if i is not None and i.op == "bin" and i.d["bop"] == "shl":
            sh = ir.const_of(f, i.args[1])
            i = f.inst_of(ir.strip_casts(f, i.args[0]))
        if i is None or i.op != "call" or i.callee != "bit_reverse_u8":
            ok = False
            continue
        e = ir.expr(f, i.args[0], 4)
        s_in = 0 if e == ("arg", 0) else (e[3][1] if e[0] == "bin" and e[1] == "lshr" and e[2] == ("arg", 0) and e[3][0] == "c" else None)
        if s_in is None or sh is None:
            ok = False
            continue
        got.add((s_in, sh))
    want = set((8 * k, 56 - 8 * k) for k in range(8))
    rep.check(ok and got == want, rid, "bit_reverse_u64", "byte k of the input, reversed through the table, lands at byte 7-k",
              "bit_reverse_u64 byte placement is %s, expected %s" % (sorted(got), sorted(want)), [f.name])


# ---------------------------------------------------------------------------
def rule_unique(ctx, rep, rid):
    B = bits(ctx)
    a = fn(ctx, "_cds_lfht_add")
    rep.touch(a)
    dup = pat.calls(a, "cds_lfht_next_duplicate")
    if not dup:
        rep.bad(rid, "add.dup-search", "unique add never searches the hash chain for a duplicate", [a.name])
        return
    for d in dup:
        leaves = pat.dom_leaf_atoms(a, d)
        uniq = any(x[0] == "ne" and x[1] == ("arg", 6) and x[2] == ("c", 0) for x in leaves)
        nb = any(x[0] == "eq" and x[2] == ("c", 0) and x[1][0] == "bin" and x[1][1] == "and" and x[1][3] == ("c", B.BUCKET) and x[1][2][0] == "load" and x[1][2][1].endswith(NEXT) for x in leaves)
        eqh = any(x[0] == "eq" and x[1][0] == "load" and x[1][1].endswith(RH) and x[2][0] == "load" and x[2][1].endswith(RH) for x in leaves)
        rep.check(uniq and nb and eqh, rid, "add.dup-search-guard", "duplicate search starts at the first node with equal reverse hash that is not a bucket node",
                  "duplicate search guard lacks %s: a bucket node with the same reverse hash can be taken for the head of the chain and the new node linked in front of its bucket"
                  % ", ".join(n for n, v in (("unique_ret", uniq), ("!is_bucket(next)", nb), ("reverse_hash equality", eqh)) if not v), [d.where()])
        # a found duplicate returns without writing the table
        found = [(t, s) for t, s, at in pat.branch_edges_on(a, lambda at: at[0] == "ne" and at[2] == ("c", 0) and at[1][0] == "load" and at[1][1].endswith("cds_lfht_iter.node"))]
        pat.require(found, "add: duplicate-found edge")
        cx = [e.inst for e in pat.accesses(a, NEXT, ("cmpxchg", "rmw", "xchg", "store"))]
        for t, s in found:
            hit, _ = a.reach([a.blocks[s].insts[0]], cx, include_start=True)
            rep.check(hit is None, rid, "add.dup-found-no-write", "when a duplicate is found the function returns without modifying the table",
                      "table modified although a duplicate was found", [t.where()])
    # no duplicate found => the node is inserted right here, at the head of the equal-hash run (in front of the node the search
    # started from), without walking further: every reader that was already handed a node of that key and walks on can then
    # only meet the new node *behind* its position if ... it cannot - the new node is in front.  Falling back into the walk
    # inserts at the tail of the run: a reader holding the old node of a key deleted and re-added meanwhile sees two nodes of that key.
    notfound = [(t, s_) for t, s_, at in pat.branch_edges_on(a, lambda at: at[0] == "eq" and at[2] == ("c", 0) and at[1][0] == "load" and at[1][1].endswith("cds_lfht_iter.node"))]
    pat.require(notfound, "add: duplicate-not-found edge")
    ins = [e.inst for e in pat.accesses(a, NEXT, ("cmpxchg",))]
    adv = [l for l in pat.loads(a, NEXT) if any(l.blk.id in c for c in a.sccs())]
    for t, s_ in notfound:
        # the next ->next load of the walk (advancing the cursor) must not be reachable before an insertion cmpxchg
        hit, _ = a.reach([a.blocks[s_].insts[0]], adv, avoid=lambda i: i in ins, include_start=True)
        rep.check(hit is None, rid, "add.dup-miss-inserts-here", "when no duplicate is found the node is inserted at the head of the equal-hash run (no further walking)",
                  "after a failed duplicate search the walk continues before inserting: the node lands behind other nodes of the run, so a traversal that already returned "
                  "an (since deleted) node of this key can meet the re-added one as well", [t.where()])
    # the search examines every node of the chain: see C05.filter for next_duplicate
    for name in ("cds_lfht_add_unique", "cds_lfht_add_replace"):
        g = fn(ctx, name)
        rep.touch(g)
        c = pat.calls(g, "_cds_lfht_add")
        pat.require(c, "%s: _cds_lfht_add call" % name)
        for x in c:
            rep.check(ir.const_of(g, x.args[6]) != 0 and ir.const_of(g, x.args[7]) == 0, rid, name + ".passes-unique_ret", "calls _cds_lfht_add with a unique_ret iterator and bucket_flag=0",
                      "%s does not request the uniqueness check" % name, [x.where()])


def rule_replace(ctx, rep, rid):
    B = bits(ctx)
    r = fn(ctx, "_cds_lfht_replace")
    rep.touch(r)
    cx = [e for e in pat.accesses(r, NEXT, ("cmpxchg",)) if e.ap["base"] == ["a", 2]]
    others = [e for e in pat.accesses(r, NEXT, ("cmpxchg", "rmw", "xchg", "store")) if e.ap["base"] == ["a", 2] and e.inst not in [x.inst for x in cx]]
    if len(cx) != 1 or others:
        rep.bad(rid, "replace.one-cmpxchg", "old_node->next must be changed by exactly one cmpxchg (found %d cmpxchg, %d other writes)" % (len(cx), len(others)), [r.name])
        return
    c = cx[0]
    new = ir.expr(r, c.new)
    flagsum = 0

    def collect(e):
        nonlocal flagsum
        if e[0] == "bin" and e[1] == "or":
            if e[3][0] == "c":
                flagsum |= e[3][1]
                return collect(e[2])
            if e[2][0] == "c":
                flagsum |= e[2][1]
                return collect(e[3])
        return e
    core_ = collect(new)
    rep.check(core_ == ("arg", 4) and flagsum == (B.REMOVED | B.OWNER), rid, "replace.new-value", "old_node->next := new_node | REMOVED | REMOVAL_OWNER in one step",
              "replace installs %s (flags 0x%x): removal and ownership must be taken by the same cmpxchg" % (ir.expr_str(new), flagsum), [c.inst.where()])
    leaves = pat.dom_leaf_atoms(r, c.inst)
    exp = ir.expr(r, c.exp, 1)
    notrem = any(a[0] == "eq" and a[2] == ("c", 0) and a[1][0] == "bin" and a[1][1] == "and" and a[1][3] == ("c", B.REMOVED) and a[1][2] == exp for a in leaves)
    rep.check(notrem, rid, "replace.expected-not-removed", "expected value was checked !REMOVED on this path (re-checked after every failed cmpxchg)",
              "cmpxchg may succeed against an already removed old_node (expected value not re-tested for REMOVED)", [c.inst.where()])
    st = [s for s in pat.stores(r, NEXT) if s.d["ap"]["base"] == ["a", 4]]
    if not st:
        rep.bad(rid, "replace.new-next", "new_node->next is never set before publication", [c.inst.where()])
    else:
        rep.must_pass(rid, "replace.new-next≺cmpxchg", r, [r.entry()], [c.inst], lambda i: i in st, include_start=True, what="new_node->next = old_next before the cmpxchg")
        rep.check(all(ir.expr(r, s.args[0], 1) == exp for s in st), rid, "replace.same-snapshot", "new_node->next is the expected value of the cmpxchg",
                  "new_node->next differs from the cmpxchg's expected value", [s.where() for s in st])
    gc = pat.calls(r, "_cds_lfht_gc_bucket")
    succ_edges = [(t.blk.id, s) for t, s, a in pat.branch_edges_on(r, lambda a: a[0] == "eq" and a[1][0] == "asm" and a[1][2] == c.inst.id)]
    rets0 = [x for x in r.rets()]
    rep.check(bool(gc), rid, "replace.gc", "successful replace garbage-collects the old node", "replace never unlinks the old node", [c.inst.where()])
    # return 0 only via the success edge
    cases = paths.ret_cases(r) if len(r.blocks) < 40 else []
    zero = [p for p, atoms, v in cases if v == ("c", 0)]
    for p in zero:
        ok = any((a, b) in succ_edges for a, b in zip(p, p[1:]))
        rep.check(ok, rid, "replace.ret0-only-on-success", "returns 0 only after the cmpxchg succeeded", "returns 0 on a path where the cmpxchg did not succeed", [r.blocks[p[-1]].insts[-1].where()])
    pat.require(zero, "replace: no path returning 0")
    # public wrapper validates arguments
    w = fn(ctx, "cds_lfht_replace")
    rep.touch(w)
    c2 = pat.calls(w, "_cds_lfht_replace")
    pat.require(c2, "cds_lfht_replace: inner call")
    leaves = pat.dom_leaf_atoms(w, c2[0])
    okh = any(a[0] == "eq" and any(x[0] == "load" and x[1].endswith(RH) for x in (a[1], a[2])) for a in leaves)
    okm = any(a[0] == "ne" and a[2] == ("c", 0) and a[1][0] == "icall" for a in leaves)
    oki = any(a[0] == "ne" and a[2] == ("c", 0) and a[1][0] == "load" and a[1][1].endswith("cds_lfht_iter.node") for a in leaves)
    # what is validated: the node being *replaced* must match the key and carry the new node's hash (the new node matching its own key says nothing)
    for a in leaves:
        if a[0] == "ne" and a[2] == ("c", 0) and a[1][0] == "icall":
            ic = w.insts[a[1][-1]] if isinstance(a[1][-1], int) else None
            if ic is not None and ic.op == "icall" and ic.args:
                a0 = ir.expr(w, ic.args[0], 4)
                a1 = ir.expr(w, ic.args[1], 4) if len(ic.args) > 1 else None
                rep.check(a0[0] == "load" and a0[1].endswith("cds_lfht_iter.node") and a1 == ("arg", 4), rid, "replace.match-old-node", "match(old_iter->node, key) decides -EINVAL",
                          "the key check is match(%s, %s): the node the iterator points at is not compared with the key - a replace through an iterator on another key of the same hash is accepted "
                          "and removes that other key's node" % (ir.expr_str(a0), ir.expr_str(a1) if a1 else "?"), [ic.where()])
        if a[0] == "eq" and any(x[0] == "load" and x[1].endswith(RH) for x in (a[1], a[2])):
            sides = (a[1], a[2])
            is_old = lambda x: x[0] == "load" and x[1].endswith(RH) and "cds_lfht_iter.node" in x[1]
            is_new = lambda x: (x[0] == "load" and x[1].endswith(RH) and x[1].startswith("arg5.")) or (x[0] == "call" and x[1].startswith("bit_reverse_ulong"))
            okp = (is_old(sides[0]) and is_new(sides[1])) or (is_old(sides[1]) and is_new(sides[0]))
            rep.check(okp, rid, "replace.hash-old-vs-new", "the old node's reverse hash is compared with the new node's (the reversed hash argument)", "the hash check compares %s" % [ir.expr_str(x) for x in sides], [c2[0].where()])
    rep.check(okh and okm and oki, rid, "replace.args", "cds_lfht_replace validates iterator, hash and match before replacing",
              "cds_lfht_replace lacks validation: %s" % ", ".join(n for n, v in (("old node non-NULL", oki), ("hash equality", okh), ("match", okm)) if not v), [c2[0].where()])


# ---------------------------------------------------------------------------
def rule_del(ctx, rep, rid):
    B = bits(ctx)
    d = fn(ctx, "_cds_lfht_del")
    rep.touch(d)
    orr = [e.inst for e in pat.accesses(d, NEXT, ("rmw",)) if e.rop == "or"]
    xs = [e.inst for e in pat.accesses(d, NEXT, ("xchg",))]
    gc = pat.calls(d, "_cds_lfht_gc_bucket")
    if not gc:
        rep.bad(rid, "del.gc", "_cds_lfht_del never unlinks the node", [d.name])
        return
    rep.must_pass(rid, "del.REMOVED≺gc", d, [d.entry()], gc, lambda i: i in orr, include_start=True, what="REMOVED is set before the node is garbage-collected")
    rep.must_pass(rid, "del.gc≺OWNER", d, [d.entry()], xs, lambda i: i in gc, include_start=True,
                  what="the node is unlinked before ownership is claimed (the owner may free it after a grace period: it must already be unreachable)")
    # already-removed => -ENOENT without any write
    rem_edges = [(t, s) for t, s, a in pat.branch_edges_on(d, lambda a: a[0] == "ne" and a[2] == ("c", 0) and a[1][0] == "bin" and a[1][1] == "and" and a[1][3] == ("c", B.REMOVED)
                                                          and a[1][2][0] == "load" and a[1][2][1].endswith(NEXT)) if not d.reach([d.entry()], orr + xs, include_start=True)[0] is None]
    first_ld = pat.loads(d, NEXT)
    pat.require(first_ld, "del: load of node->next")
    pre = [(t, s) for t, s in rem_edges if d.dominates(t, orr[0])]
    if not pre:
        rep.bad(rid, "del.already-removed", "no early exit for an already removed node: two deleters may both proceed", [orr[0].where()])
    for t, s in pre:
        hit, _ = d.reach([d.blocks[s].insts[0]], orr + xs + gc, include_start=True)
        rep.check(hit is None, rid, "del.already-removed", "an already REMOVED node returns failure without any write", "already removed node is still modified", [t.where()])
    # the word written by the ownership exchange is the node's *current* next word (re-read after REMOVED was set, when
    # only flag bits can still change - except through a concurrent replace, whose `new | REMOVED | OWNER` must survive)
    # with REMOVAL_OWNER or-ed in; a value remembered from before the REMOVED `or` can overwrite a committed replace
    for x in xs:
        e = mm.effect_of(x)
        v = ir.expr(d, e.val, 6)
        shape = v[0] == "bin" and v[1] == "or" and v[3] == ("c", B.OWNER) and v[2][0] == "load" and v[2][1].endswith(NEXT)
        fresh = shape and all(d.dominates(o, d.insts[v[2][3]]) for o in orr)
        rep.check(shape and fresh, rid, "del.owner-xchg-value", "ownership exchange writes (re-read next word | REMOVAL_OWNER)",
                  "ownership exchange writes %s: not the next word re-read after REMOVED was set; a replace that committed in between (old->next = new|REMOVED|OWNER) "
                  "is overwritten and readers positioned on the old node skip the new one" % ir.expr_str(v), [x.where()])
    # return 0 iff xchg result lacked OWNER
    r = d.rets()[0]
    cases = paths.ret_cases(d)
    good = False
    for p, atoms, v in cases:
        if v == ("c", 0):
            ok = any(a[0] == "eq" and a[2] == ("c", 0) and a[1][0] == "bin" and a[1][1] == "and" and a[1][3] == ("c", B.OWNER) and a[1][2][0] == "asm" and a[1][2][2] == xs[0].id for a in atoms)
            good = True
            rep.check(ok, rid, "del.ret0-iff-owner", "returns 0 only when the exchange shows REMOVAL_OWNER was not yet set (this caller owns the node)",
                      "returns 0 without having observed that it obtained removal ownership: two callers can both `own` the node", [r.where()])
    pat.require(good, "del: no path returns 0")
    for p, atoms, v in cases:
        if v is not None and v[0] == "c" and v[1] != 0:
            own_not_set = any(a[0] == "eq" and a[2] == ("c", 0) and a[1][0] == "bin" and a[1][3] == ("c", B.OWNER) and a[1][2][0] == "asm" for a in atoms)
            rep.check(not own_not_set, rid, "del.fail-iff-not-owner", "failure is returned only when ownership was not obtained", "reports failure although ownership was obtained", [r.where()])


def rule_bits(ctx, rep, rid):
    B = bits(ctx)
    m = M(ctx)
    allowed = {"_cds_lfht_gc_bucket", "_cds_lfht_replace", "_cds_lfht_add", "_cds_lfht_del", "remove_table_partition"}
    who, owner_setters, removed_setters = set(), set(), set()
    for g in m.defined():
        for e in pat.accesses(g, NEXT, ("rmw", "cmpxchg", "xchg")):
            who.add(g.name)
            vals = [x for x in (e.val, e.new) if x is not None]
            for v in vals:
                ex = ir.expr(g, v, 6)

                def consts(x, acc):
                    if x[0] == "bin" and x[1] == "or":
                        for y in (x[2], x[3]):
                            if y[0] == "c":
                                acc.append(y[1])
                            else:
                                consts(y, acc)
                    if x[0] == "c":
                        acc.append(x[1])
                    if x[0] == "select":
                        consts(x[2], acc)
                        consts(x[3], acc)
                    return acc
                cs = consts(ex, [])
                if any(c & B.OWNER for c in cs if 0 < c < 8):
                    owner_setters.add(g.name)
                if any(c & B.REMOVED for c in cs if 0 < c < 8):
                    removed_setters.add(g.name)
        for s in pat.stores(g, NEXT):
            c = ir.const_of(g, s.args[0])
            if c is not None and c & B.REMOVED:
                removed_setters.add(g.name)
    # REMOVED / REMOVAL_OWNER are sticky: the only read-modify-write that edits flag bits in place is an `or`.  An `and` (or an add/sub/xor) on
    # node->next takes a flag back - a logically deleted node, or a bucket retired by a shrink, whose REMOVED bit is cleared has a writable
    # next pointer again: a concurrent add links behind it, a helper's gc cmpxchg on it succeeds, after it left the chain
    rm = [(g, e) for g in m.defined() for e in pat.accesses(g, NEXT, ("rmw",))]
    pat.require(len(rm) >= 2, "only %d in-place flag updates of node->next found" % len(rm))
    badrm = [(g, e) for g, e in rm if e.rop != "or"]
    rep.check(not badrm, rid, "flags-only-set-in-place", "all %d in-place updates of node->next are `or` (flags are only ever added)" % len(rm),
              "node->next is updated in place with `%s` in %s: a flag bit is cleared (or the pointer altered) on a node other threads may already treat as removed"
              % (badrm[0][1].rop if badrm else "", badrm[0][0].name if badrm else ""), [e.inst.where() for g, e in badrm[:3]])
    rep.check(who <= allowed, rid, "who-rmw-next", "atomic updates of node->next only in %s" % sorted(who), "node->next atomically modified from %s" % sorted(who - allowed), sorted(who - allowed))
    rep.check(owner_setters == {"_cds_lfht_replace", "_cds_lfht_del"}, rid, "who-sets-OWNER", "REMOVAL_OWNER set only by replace and del", "REMOVAL_OWNER set by %s" % sorted(owner_setters), sorted(owner_setters))
    rep.check(removed_setters <= {"_cds_lfht_replace", "_cds_lfht_del", "remove_table_partition", "cds_lfht_node_init_deleted"} and {"_cds_lfht_replace", "_cds_lfht_del", "remove_table_partition"} <= removed_setters,
              rid, "who-sets-REMOVED", "REMOVED set only by replace, del, remove_table_partition, node_init_deleted", "REMOVED set by %s" % sorted(removed_setters), sorted(removed_setters))


def rule_gc(ctx, rep, rid):
    B = bits(ctx)
    g = fn(ctx, "_cds_lfht_gc_bucket")
    rep.touch(g)
    cx = [e for e in pat.accesses(g, NEXT, ("cmpxchg",))]
    pat.require(len(cx) == 1, "gc_bucket: unlink cmpxchg")
    c = cx[0]
    new = ir.expr(g, c.new, 6)
    # new value never carries REMOVED or OWNER: built from (x & ~MASK) [| BUCKET]
    def has_bad(e):
        if e[0] == "c":
            return bool(e[1] & (B.REMOVED | B.OWNER)) and 0 < e[1] < 8
        if e[0] == "bin" and e[1] == "or":
            return has_bad(e[2]) or has_bad(e[3])
        if e[0] == "select":
            return has_bad(e[2]) or has_bad(e[3])
        if e[0] == "bin" and e[1] == "and" and e[3][0] == "c":
            return bool(e[3][1] & (B.REMOVED | B.OWNER)) and e[3][1] != -8 and (e[3][1] & 7) != 0
        if e[0] in ("load", "phi", "arg"):
            return True   # raw, unmasked pointer word
        return False
    rep.check(not has_bad(new), rid, "gc.unlink-value-clean", "the unlinking cmpxchg installs a flag-free successor (| BUCKET only)",
              "the unlinking cmpxchg can propagate REMOVED/OWNER bits into the predecessor: %s" % ir.expr_str(new), [c.inst.where()])
    leaves = pat.dom_leaf_atoms(g, c.inst)
    rem = any(a[0] == "ne" and a[2] == ("c", 0) and a[1][0] == "bin" and a[1][1] == "and" and a[1][3] == ("c", B.REMOVED) and a[1][2][0] == "load" for a in leaves)
    rep.check(rem, rid, "gc.only-removed", "only a node observed REMOVED is unlinked", "a node is unlinked without having been observed REMOVED", [c.inst.where()])
    # after the cmpxchg control re-loads bucket->next (restart from the bucket)
    bl = [l for l in pat.loads(g, NEXT) if l.d["ap"]["base"] == ["a", 0]]
    pat.require(bl, "gc: load of bucket->next")
    rep.must_pass(rid, "gc.restart-from-bucket", g, [c.inst], [x for x in pat.loads(g, NEXT) if x not in bl] + [c.inst] + list(g.rets()), lambda i: i in bl,
                  what="after unlinking (or failing to), the scan restarts from the bucket - the function returns only from a scan that did not find the node")
    r = fn(ctx, "remove_table_partition")
    rep.touch(r)
    orr = [e.inst for e in pat.accesses(r, NEXT, ("rmw",)) if e.rop == "or" and ir.const_of(r, e.val) == B.REMOVED]
    gcc = pat.calls(r, "_cds_lfht_gc_bucket")
    if not orr or not gcc:
        rep.bad(rid, "remove_table.anatomy", "remove_table_partition lacks REMOVED marking / gc of the level's bucket nodes (a freed level would stay linked)", [r.name])
    else:
        rep.must_pass(rid, "remove_table.REMOVED≺gc", r, [r.entry()], gcc, lambda i: i in orr, include_start=True, what="bucket nodes are flagged REMOVED before being unlinked")
        # every flagged node is unlinked in the same iteration
        rep.must_pass(rid, "remove_table.flagged⇒gc", r, orr, orr + [x for x in r.rets()], lambda i: i in gcc, what="every flagged bucket node is garbage-collected before the next one / return")
        for c_ in gcc:
            same = c_.d["aps"][1] is not None and mm.effect_of(orr[0]).ap["base"] == c_.d["aps"][1]["base"]
            rep.check(same, rid, "remove_table.gc-target", "gc is asked to unlink the node that was flagged", "gc target differs from the flagged node", [c_.where()])


def rule_emptywalk(ctx, rep, rid):
    """Emptiness walks (cds_lfht_delete_bucket, cds_lfht_is_empty): every next word loaded during the walk is classified
    (BUCKET bit tested) before the walk can conclude `empty` - including the word of the last node, whose successor is END.
    A walk that tests is_end() first never looks at the flags of the tail node: a table whose only user node is the tail is
    reported empty and destroyed."""
    B = bits(ctx)
    for name in ("cds_lfht_delete_bucket", "cds_lfht_is_empty"):
        f = fn(ctx, name)
        rep.touch(f)
        comps = f.sccs()
        pat.require(comps, "%s: emptiness loop vanished" % name)
        walk = [l for l in pat.loads(f, NEXT) if any(l.blk.id in c for c in comps) and not pat.from_fn_opt(l, "bucket_at")]
        # the walk loop is the first one (delete_bucket has a second, sanity-check loop over the bucket array)
        first = min(comps, key=lambda c: min(c))
        walk = [l for l in walk if l.blk.id in first]
        pat.require(walk, "%s: no load of ->next in the walk" % name)
        if name == "cds_lfht_delete_bucket":
            targets = pat.calls(f, "cds_lfht_free_bucket_table") + pat.loads(f, "cds_lfht.size")
        else:
            targets = None
            # this walk runs concurrently with a pending resize (destroy of an AUTO_RESIZE table): it is a read-side critical
            # section of the table's flavor unless the caller already is in one - read_lock()/read_unlock(), not merely
            # thread_online()/thread_offline() (which make a reader only under QSBR)
            rl = flavor_icalls(f, "read_lock")
            ru = flavor_icalls(f, "read_unlock")
            ongoing = flavor_icalls(f, "read_ongoing")
            pat.require(ongoing, "cds_lfht_is_empty: read_ongoing() test")
            was_on = [(t.blk.id, s_) for t, s_, a in pat.branch_edges_on(f, lambda a: a[0] == "ne" and a[2] == ("c", 0) and ir.expr_contains(a[1], lambda z: z[0] == "icall" and z[1] == ongoing[0].id))]
            if not rl or not ru:
                rep.bad(rid, "is_empty.read-side", "cds_lfht_is_empty walks the bucket chain without entering a read-side critical section (no flavor->read_lock()): a shrink running on the "
                        "resize worker does not wait for it and frees bucket nodes under the walk", [walk[0].where()])
            else:
                rep.must_take_edge(rid, "is_empty.read-side", f, [f.entry()], walk, was_on, include_start=True, avoid=lambda i: i in rl,
                                   what="the walk is preceded by flavor->read_lock() unless the caller already was a reader")
        for L in walk:
            def about_L(e):
                if e[0] == "load":
                    return e[3] == L.id
                if e[0] == "phi":
                    ph = f.insts[e[1]]
                    return any(ir.strip_casts(f, v) == ["i", L.id] or tuple(ir.strip_casts(f, v)) == ("i", L.id) for v, _b in ph.d["inc"])
                return False
            edges = []
            for t, s_, a in pat.branch_edges_on(f, lambda a: a[0] in ("eq", "ne") and a[2] == ("c", 0) and a[1][0] == "bin" and a[1][1] == "and" and a[1][3] == ("c", B.BUCKET) and about_L(a[1][2])):
                edges.append((t.blk.id, s_))
            if not edges:
                rep.bad(rid, "%s.classifies-every-word@%d" % (name, L.line), "the next word loaded at %s is never tested for the BUCKET flag" % L.short(), [L.where()])
                continue
            rep.must_take_edge(rid, "%s.classifies-every-word@%d" % (name, L.line), f, [L], targets, edges, to_exit=(targets is None), include_start=False,
                               avoid=lambda i, L=L: i is L, what="every next word loaded by the emptiness walk is tested for BUCKET before the walk concludes")


def rule_wqguard(ctx, rep, rid):
    """Work for the resize worker is queued only on behalf of AUTO_RESIZE tables: cds_lfht_new creates the work queue (and its
    thread) only for them.  In every exported operation, each (inlined) path to urcu_workqueue_queue_work is dominated by
    `flags & CDS_LFHT_AUTO_RESIZE`; for a table with ACCOUNTING but without AUTO_RESIZE the counter-driven path would otherwise
    dereference a NULL work queue, or resize a fixed-size table behind the caller's back."""
    m = ctx.mod("cds", "flat")
    n = 0
    for f in m.defined():
        q = pat.calls_opt(f, "urcu_workqueue_queue_work")
        for c in q:
            wq = ir.expr(f, c.args[0], 3)
            if not (wq[0] == "load" and wq[1] == "@cds_lfht_workqueue"):
                continue
            n += 1
            rep.touch(f)
            lv = pat.dom_leaf_atoms(f, c)
            ok = any(a[0] == "ne" and a[2] == ("c", 0) and a[1][0] == "bin" and a[1][1] == "and" and a[1][3] == ("c", 1) and a[1][2][0] == "load" and a[1][2][1].endswith("cds_lfht.flags") for a in lv)
            rep.check(ok, rid, "%s@%s:%d" % (f.name, c.origin_fn, c.line), "work queued only under flags & AUTO_RESIZE",
                      "%s can queue work for the resize worker without having tested CDS_LFHT_AUTO_RESIZE (path through %s): the work queue does not exist for such tables" % (f.name, " <- ".join(c.scope_chain[:4])),
                      [c.where()])
    pat.require(n >= 4, "only %d queue_work sites on cds_lfht_workqueue" % n)


def rule_bucketat(ctx, rep, rid):
    """T10 sibling agreement between each allocator's alloc_bucket_table (how many nodes each level / chunk / mapping holds)
    and its bucket_at (which slot an index maps to).  order: level 0 holds min_nr_alloc_buckets nodes and is selected by
    `index < min_nr_alloc_buckets`; level k > 0 holds L(k) nodes (L taken from the calloc of that level) and bucket_at selects
    level fls(index) and slot index & (L(fls(index)) - 1).  chunk: every chunk holds C nodes (C from the calloc); bucket_at
    selects chunk index >> min_alloc_buckets_order and slot index & (C - 1).  mmap: one flat array, slot index.  An index
    mapped outside its level, or two indices mapped to one slot, corrupt bucket chains for every table size above the smallest."""
    import re as _re
    m = ctx.mod("cds", "perfn")
    n = 0
    for gname, g in m.globals.items():
        init = g.get("init")
        if not init or init[0] != "struct" or init[1] != "cds_lfht_mm_type":
            continue
        slots = dict((k.split(".")[-1], v) for k, v in init[2])
        af, bf = m.fn(slots["alloc_bucket_table"][1]), m.fn(slots["bucket_at"][1])
        if af is None or bf is None:
            raise Broken("mm functions of %s not defined" % gname)
        rep.touch(af)
        rep.touch(bf)
        n += 1
        kind = gname.split("_")[-1]

        def norm(e):
            return _re.sub(r"cds_lfht_fls_ulong\(\)#\d+", "ORDER", ir.expr_str(e)).replace("arg1", "ARG1")

        def slot_exprs(f):
            """[(outer index expr or None, inner index expr, dominating atoms)] for every address bucket_at can return"""
            out = []
            r = f.rets()[0]
            roots = []
            v = ir.strip_casts(f, r.args[0], int_too=False)
            vi = f.inst_of(v)
            if vi is not None and vi.op == "phi":
                roots = [f.inst_of(ir.strip_casts(f, x, int_too=False)) for x, _b in vi.d["inc"]]
            else:
                roots = [vi]
            for g2 in roots:
                if g2 is None or g2.op != "gep":
                    raise Broken("%s: returned address is not an array element" % f.name)
                inner = ir.expr(f, g2.args[-1], 8)
                base = f.inst_of(ir.strip_casts(f, g2.args[0], int_too=False))
                outer = None
                if base is not None and base.op == "load":
                    g1 = f.inst_of(ir.strip_casts(f, base.args[0], int_too=False))
                    if g1 is not None and g1.op == "gep" and len(g1.args) >= 3:
                        outer = ir.expr(f, g1.args[-1], 8)
                out.append((outer, inner, pat.dom_leaf_atoms(f, g2)))
            return out
        allocs = [i for i in af.all_insts() if i.op == "icall" and (lambda e: e[0] == "load" and e[1].endswith("cds_lfht_alloc.calloc"))(ir.expr(af, i.d["fp"]))]
        sl = slot_exprs(bf)
        # every allocation / mapping is a whole number of bucket nodes: bucket_at strides by sizeof(struct cds_lfht_node)
        from .. import linear
        NODE = m.structs["cds_lfht_node"]["size"]
        ff = m.fn(slots["free_bucket_table"][1])
        pat.require(ff is not None, "free_bucket_table of %s" % gname)
        rep.touch(ff)
        sized = []
        for a in allocs:
            cnt, sz = linear.norm(ir.expr(af, a.args[1], 8)), linear.norm(ir.expr(af, a.args[2], 8))
            tot = None
            if cnt is not None and sz is not None:
                if not (set(sz) - {1}):
                    tot = {t: c * sz.get(1, 0) for t, c in cnt.items()}
                elif not (set(cnt) - {1}):
                    tot = {t: c * cnt.get(1, 0) for t, c in sz.items()}
            sized.append((a, "calloc", tot))
        lens = {}
        for g_, role in ((af, "alloc"), (ff, "free")):
            for c_ in g_.all_insts():
                if c_.op == "call" and c_.callee in ("memory_map", "memory_populate", "memory_discard", "memory_unmap"):
                    tot = linear.norm(ir.expr(g_, c_.args[-1], 8))
                    sized.append((c_, c_.callee, tot))
                    lens.setdefault(c_.callee, []).append(tot)
        pat.require(sized, "%s allocator: no sized allocation found" % kind)
        for a, what, tot in sized:
            if tot is None:
                raise Broken("%s allocator: byte size at %s is not linear in the node count" % (kind, a.where()))
            okn = bool(tot) and all(c % NODE == 0 for c in tot.values())
            rep.check(okn, rid, "%s.node-sized@%d" % (kind, a.line), "%s size is a whole number of %d-byte bucket nodes (%s)" % (what, NODE, linear.show(tot)),
                      "%s allocator: %s of %s bytes is not a multiple of sizeof(struct cds_lfht_node) = %d per bucket: bucket_at() strides by the node size and runs past the end "
                      "of the allocation (heap / mapping overflow once enough buckets are used)" % (kind, what, linear.show(tot), NODE), [a.where()])
        if kind == "mmap":
            def _same(x, y):
                return sorted(map(linear.show, lens.get(x, []))) == sorted(map(linear.show, lens.get(y, [])))
            rep.check(_same("memory_map", "memory_unmap"), rid, "mmap.map=unmap", "the whole reservation is unmapped with the length it was mapped with", "mmap allocator: reserved %s bytes, unmaps %s" %
                      ([linear.show(x) for x in lens.get("memory_map", [])], [linear.show(x) for x in lens.get("memory_unmap", [])]), [ff.name])
            lv_p = [x for x in lens.get("memory_populate", []) if any(isinstance(t, tuple) and t[0] == "t" for t in x)]
            rep.check(sorted(map(linear.show, lv_p)) == sorted(map(linear.show, lens.get("memory_discard", []))), rid, "mmap.populate=discard", "a level is discarded with the length it was populated with",
                      "mmap allocator: a level is populated with %s bytes and discarded with %s" % ([linear.show(x) for x in lv_p], [linear.show(x) for x in lens.get("memory_discard", [])]), [ff.name])
        if kind == "order":
            lvl = [a for a in allocs if any(x[0] in ("ugt", "ne") and x[1] == ("arg", 1) for x in pat.dom_leaf_atoms(af, a)) and ir.expr(af, a.args[1], 6)[0] != "load"]
            l0 = [a for a in allocs if ir.expr(af, a.args[1], 6) == ("load", "arg0.cds_lfht.min_nr_alloc_buckets", "na", ir.expr(af, a.args[1], 6)[3]) or ir.expr_str(ir.expr(af, a.args[1], 6)) == "ld(arg0.cds_lfht.min_nr_alloc_buckets)"]
            pat.require(lvl and l0, "order allocator: level allocations not recognised")
            L = ir.expr_str(ir.expr(af, lvl[0].args[1], 6)).replace("arg1", "ORDER")      # e.g. (1 shl (ORDER sub 1))
            ok0 = okk = False
            # comparable only if the mapping still has the skeleton (level 0: slot = f(index) under an unsigned bound test;
            # level k: slot = index & mask); a differently structured but possibly equivalent mapping is inconclusive
            for outer, inner, atoms in sl:
                if outer != ("c", 0) and not (inner[0] == "bin" and inner[1] == "and" and ("arg", 1) in (inner[2], inner[3])):
                    raise Broken("order allocator: bucket_at slot expression %s is not of the form index & mask: table not comparable" % norm(inner))
            for outer, inner, atoms in sl:
                if outer == ("c", 0):
                    ok0 = inner == ("arg", 1) and any(a[0] == "ult" and a[1] == ("arg", 1) and ir.expr_str(a[2]) == "ld(arg0.cds_lfht.min_nr_alloc_buckets)" for a in atoms)
                elif outer is not None:
                    okk = norm(outer) == "ORDER" and norm(inner) == "(ARG1 and (%s sub 1))" % L and any(a[0] == "uge" and a[1] == ("arg", 1) for a in atoms)
            rep.check(ok0, rid, "order.level0", "indices below min_nr_alloc_buckets map to tbl_order[0][index]", "order allocator: level 0 selection / slot is %s" % [(norm(o) if o else None, norm(i)) for o, i, _ in sl], [bf.name])
            rep.check(okk, rid, "order.levelk", "index maps to level fls(index), slot index & (level size - 1), level size %s as allocated" % L,
                      "order allocator: bucket_at maps an index to %s but level ORDER is allocated with %s nodes" % ([(norm(o) if o else None, norm(i)) for o, i, _ in sl if o != ("c", 0)], L), [bf.name])
        elif kind == "chunk":
            caps = set(ir.expr_str(ir.expr(af, a.args[1], 6)) for a in allocs)
            pat.require(len(caps) == 1, "chunk allocator: chunk capacity expression %s" % caps)
            C = caps.pop()
            outer, inner, _ = sl[0]
            if outer is None or not (outer[0] == "bin" and outer[1] == "lshr" and outer[2] == ("arg", 1)) or not (inner[0] == "bin" and inner[1] == "and" and ("arg", 1) in (inner[2], inner[3])):
                raise Broken("chunk allocator: bucket_at is not of the form tbl[index >> s][index & mask]: table not comparable")
            okc = outer is not None and ir.expr_str(outer) == "(arg1 lshr ld(arg0.cds_lfht.min_alloc_buckets_order))"
            oks = ir.expr_str(inner) in ("(arg1 and (%s sub 1))" % C, "(arg1 and (%s add -1))" % C)
            rep.check(okc and oks, rid, "chunk.slot", "chunk = index >> min_alloc_buckets_order, slot = index & (chunk capacity - 1), capacity %s as allocated" % C,
                      "chunk allocator: bucket_at maps an index to chunk %s slot %s but every chunk holds %s nodes" % (ir.expr_str(outer) if outer else None, ir.expr_str(inner), C), [bf.name])
        elif kind == "mmap":
            outer, inner, _ = sl[0]
            rep.check(inner == ("arg", 1), rid, "mmap.slot", "flat array: slot = index", "mmap allocator: slot is %s" % ir.expr_str(inner), [bf.name])
    pat.require(n >= 3, "only %d cds_lfht_mm_type tables found" % n)


def rule_newparams(ctx, rep, rid):
    """cds_lfht_new parameter normalisation.  The sizes handed to the allocator plugin and to the initial-size computation
    are select trees over the three size arguments, the plugin argument and MIN_TABLE_SIZE that involve the sizes only through
    unsigned comparisons, so the finitely many orderings of (init, min_alloc, max) - with max = 0 `unbounded` for the order
    plugin - are enumerated and the expressions evaluated for each (sa/ceval.py; nothing of the library is executed).
    Required: min' >= 1, min' <= max', 1 <= init' <= max', all powers of two: the three allocators size their first
    allocation from min' and their reservation / index arithmetic from max'."""
    import itertools
    from .. import ceval
    m = ctx.mod("cds", "perfn")
    f = m.fn("_cds_lfht_new_with_alloc")
    if f is None:
        raise Broken("_cds_lfht_new_with_alloc vanished")
    rep.touch(f)
    al = [i for i in f.all_insts() if i.op == "icall" and (lambda e: e[0] == "load" and e[1].endswith("cds_lfht_mm_type.alloc_cds_lfht"))(ir.expr(f, i.d["fp"]))]
    co = [c for c in f.calls() if c.callee and c.callee.startswith("cds_lfht_get_count_order")]
    pat.require(len(al) == 1 and co, "cds_lfht_new: allocator call / initial order computation")
    emin, emax, einit = ir.expr(f, al[0].args[0], 16), ir.expr(f, al[0].args[1], 16), ir.expr(f, co[0].args[0], 16)
    mms = [("addr", "@cds_lfht_mm_order"), ("addr", "@cds_lfht_mm_chunk"), ("addr", "@cds_lfht_mm_mmap")]
    for a in mms:
        pat.require(a[1][1:] in m.globals, "plugin table %s" % a[1])
    M64 = (1 << 64) - 1
    pow2 = lambda x: x is not None and (x & M64) != 0 and ((x & M64) & ((x & M64) - 1)) == 0
    bad = []
    n = 0
    sizes = (1, 2, 4, 8, 1 << 34)
    for init, mn, mx, mm_ in itertools.product(sizes, sizes, sizes + (0,), [None] + mms):
        env = {("arg", 0): init, ("arg", 1): mn, ("arg", 2): mx, ("arg", 4): (ceval.val(mm_, {}) if mm_ else 0), ("arg", 6): 0}
        if mx == 0 and mm_ not in (None, mms[0]):
            continue                    # rejected by the validation (max must be a power of two unless the order plugin)
        n += 1
        vmin, vmax, vinit = (ceval.val(e, env) for e in (emin, emax, einit))
        if None in (vmin, vmax, vinit):
            raise Broken("cds_lfht_new: normalised sizes not evaluable (%s)" % ir.expr_str(emax)[:120])
        vmin, vmax, vinit = vmin & M64, vmax & M64, vinit & M64
        ok = pow2(vmin) and pow2(vmax) and pow2(vinit) and vmin <= vmax and vinit <= vmax
        if not ok:
            bad.append("new(init=%d, min_alloc=%d, max=%d, mm=%s) -> min'=%d max'=%d init'=%d" % (init, mn, mx, mm_[1] if mm_ else "default", vmin, vmax, vinit))
    rep.check(not bad, rid, "new.normalised-sizes", "for all %d orderings of (init, min_alloc, max, plugin): min' <= max', init' <= max', powers of two" % n,
              "cds_lfht_new hands the allocator inconsistent sizes: %s - the mmap / chunk allocators size their first allocation from min' and their reservation from max' "
              "(populate beyond the reservation overwrites neighbouring mappings; index arithmetic runs past the table)" % "; ".join(bad[:2]), [al[0].where()])


def rule_mmapargs(ctx, rep, rid):
    """T9 constant arguments of the mmap bucket allocator's four memory helpers (Linux scheme): the address range is reserved
    inaccessible (PROT_NONE, private anonymous, no fixed address), populated in place (PROT_READ|PROT_WRITE, MAP_FIXED at the
    given pointer, and the call must return that pointer), discarded in place (PROT_NONE, MAP_FIXED: bucket memory released by a
    shrink becomes inaccessible and is given back) and unmapped with the same pointer / length it was given."""
    m = ctx.mod("cds", "perfn")
    PROT_NONE, PROT_RW = 0, 3
    MAP_PRIVATE, MAP_FIXED, MAP_ANON = 2, 0x10, 0x20
    want = {
        "memory_map": ("mmap", {0: ("c", 0), 2: PROT_NONE, 3: MAP_PRIVATE | MAP_ANON, 4: -1}),
        "memory_populate": ("mmap", {0: ("arg", 0), 1: ("arg", 1), 2: PROT_RW, 3: MAP_FIXED | MAP_PRIVATE | MAP_ANON, 4: -1}),
        "memory_discard": ("mmap", {0: ("arg", 0), 1: ("arg", 1), 2: PROT_NONE, 3: MAP_FIXED | MAP_PRIVATE | MAP_ANON, 4: -1}),
        "memory_unmap": ("munmap", {0: ("arg", 0), 1: ("arg", 1)}),
    }
    for name, (callee, args) in want.items():
        f = m.fn(name)
        if f is None:
            raise Broken("mmap allocator helper %s vanished" % name)
        rep.touch(f)
        cs = f.calls(callee)
        if len(cs) != 1:
            raise Broken("%s: expected one %s call" % (name, callee))
        c = cs[0]
        bad = []
        for k, w in args.items():
            e = ir.expr(f, c.args[k], 3)
            if isinstance(w, tuple):
                if e != w:
                    bad.append("arg %d is %s, expected %s" % (k, ir.expr_str(e), ir.expr_str(w)))
            else:
                v = ir.const_of(f, c.args[k])
                if v != w:
                    bad.append("arg %d is %s, expected %#x" % (k, v, w))
        rep.check(not bad, rid, name + ".args", "%s(%s) with the specified protection / flags" % (callee, name), "%s: %s" % (name, "; ".join(bad)), [c.where()])
        if name in ("memory_populate", "memory_discard"):
            # success test: the fixed mapping must land at the requested address
            ok = any(a[0] in ("eq", "ne") and ((a[1][0] == "call" and a[1][2] == c.id and a[2] == ("arg", 0)) or (a[2][0] == "call" and a[2][2] == c.id and a[1] == ("arg", 0)))
                     for b in f.blocks for s_ in b.succ for a in ir.edge_atoms(f, b.id, s_))
            rep.check(ok, rid, name + ".checks-result", "the result of the fixed mapping is compared with the requested address", "result of mmap(MAP_FIXED) not checked against the requested address", [c.where()])


def rule_destroy(ctx, rep, rid):
    d = fn(ctx, "cds_lfht_delete_bucket")
    rep.touch(d)
    fr = pat.calls(d, "cds_lfht_free_bucket_table")
    pat.require(fr, "delete_bucket: free_bucket_table")
    B = bits(ctx)
    # -EPERM before any free when a non-bucket node is found
    perm = [(t, s) for t, s, a in pat.branch_edges_on(d, lambda a: a[0] == "eq" and a[2] == ("c", 0) and a[1][0] == "bin" and a[1][1] == "and" and a[1][3] == ("c", B.BUCKET))]
    rep.check(bool(perm), rid, "delete_bucket.checks-empty", "delete_bucket tests every node for the BUCKET flag", "delete_bucket does not check for user nodes", [d.name])
    for t, s in perm:
        hit, _ = d.reach([d.blocks[s].insts[0]], fr, include_start=True)
        rep.check(hit is None, rid, "delete_bucket.EPERM-frees-nothing", "finding a user node returns without freeing any bucket table", "bucket tables freed although the table is not empty", [t.where()])
    w = fn(ctx, "cds_lfht_destroy")
    rep.touch(w)
    m = M(ctx)
    AUTO = m.enum(None, "CDS_LFHT_AUTO_RESIZE") if False else 1
    # (1) synchronous teardown only for tables that never had a resize worker: every direct teardown step in
    #     cds_lfht_destroy is dominated by `(flags & AUTO_RESIZE) == 0`, with no further condition that could let an
    #     auto-resize table through (its worker may still be inside do_resize_cb using ht after resize_initiated was cleared)
    def table_free(f):
        return [i for i in f.all_insts() if i.op == "icall" and (lambda e: e[0] == "load" and e[1].endswith("cds_lfht_alloc.free"))(ir.expr(f, i.d["fp"]))]
    tear = [c for c in w.calls() if c.callee in ("cds_lfht_delete_bucket", "free_split_items_count", "pthread_mutex_destroy")] + table_free(w)
    pat.require(len(tear) >= 3, "cds_lfht_destroy: synchronous teardown calls")

    def not_auto(a):
        return a[0] == "eq" and a[2] == ("c", 0) and a[1][0] == "bin" and a[1][1] == "and" and a[1][3] == ("c", AUTO) and a[1][2][0] == "load" and a[1][2][1].endswith("cds_lfht.flags")

    def is_auto(a):
        return a[0] == "ne" and a[2] == ("c", 0) and a[1][0] == "bin" and a[1][1] == "and" and a[1][3] == ("c", AUTO) and a[1][2][0] == "load" and a[1][2][1].endswith("cds_lfht.flags")
    for c in tear:
        lv = pat.dom_leaf_atoms(w, c)
        rep.check(any(not_auto(a) for a in lv), rid, "destroy.sync-only-without-worker.%s@%d" % (c.callee or "free(ht)", c.line),
                  "synchronous %s only when the table has no AUTO_RESIZE worker" % (c.callee or "free(ht)"),
                  "%s can run synchronously in cds_lfht_destroy on an AUTO_RESIZE table: the resize worker may still be using the table (it clears resize_initiated "
                  "before its last accesses to ht)" % (c.callee or "free(ht)"), [c.where()])
    q = pat.calls_opt(w, "urcu_workqueue_queue_work")
    pre = []
    w0 = w
    if not q:
        # the deferred branch may live in a static helper called from cds_lfht_destroy: the guards in front of the call carry over
        hs = [c for c in w.calls() if m.fn(c.callee) is not None and pat.calls_opt(m.fn(c.callee), "urcu_workqueue_queue_work")]
        pat.require(len(hs) == 1, "cds_lfht_destroy: queue_work")
        pre = list(pat.dom_leaf_atoms(w, hs[0]))
        w = m.fn(hs[0].callee)
        rep.touch(w)
        q = pat.calls(w, "urcu_workqueue_queue_work")
    pat.require(len(q) == 1, "cds_lfht_destroy: queue_work")
    lv = pre + list(pat.dom_leaf_atoms(w, q[0]))
    rep.check(any(is_auto(a) for a in lv), rid, "destroy.deferred-iff-auto", "teardown is queued behind pending resize work exactly for AUTO_RESIZE tables",
              "deferred teardown is not guarded by the AUTO_RESIZE flag", [q[0].where()])
    extra = [a for a in lv if not is_auto(a) and not (a[1][0] == "call" and a[1][1] == "cds_lfht_is_empty")]
    rep.check(not extra, rid, "destroy.deferred-unconditionally", "an AUTO_RESIZE table that is empty is always torn down through the work queue",
              "deferred teardown additionally depends on %s: when it does not hold, the table is freed under a worker that may still use it" % [ir.atom_str(a) for a in extra][:3], [q[0].where()])
    emp = pat.calls(w, "cds_lfht_is_empty")
    pat.require(emp, "cds_lfht_destroy: emptiness check on the deferred path")
    rep.check(any(a[0] == "ne" and a[2] == ("c", 0) and a[1][0] == "call" and a[1][1] == "cds_lfht_is_empty" for a in lv), rid, "destroy.deferred-only-if-empty",
              "destroy work is queued only for an empty table (-EPERM otherwise)", "destroy work queued without the emptiness check", [q[0].where()])
    cb = ir.expr(w, q[0].args[2]) if len(q[0].args) > 2 else None
    cbf = m.fn(cb[1]) if cb and cb[0] == "fn" else None
    rep.check(cbf is not None and bool(table_free(cbf)), rid, "destroy.queues-destroy-cb", "the queued work (%s) is the function that releases the table" % (cb[1] if cbf else "?"),
              "queued work %s does not release the table" % ir.expr_str(cb), [q[0].where()])
    if cbf is None:
        return
    # (2) the deferred callback: empty check / bucket free, then counters, mutex, then the table itself last; nothing touches ht afterwards
    rep.touch(cbf)
    pf = table_free(cbf)
    db = pat.calls(cbf, "cds_lfht_delete_bucket")
    pat.require(pf and db, "do_auto_resize_destroy_cb anatomy")
    rep.must_pass(rid, "destroy_cb.buckets≺table", cbf, [cbf.entry()], pf, lambda i: i in db, include_start=True, what="bucket tables are released before the table structure")
    after = cbf.reachable_set(pf)
    late = [i for i in cbf.all_insts() if i.id in after and (i.op in ("load", "store", "icall") or (i.op == "call" and i.callee not in ("llvm.dbg.value",)))
            and i.op != "ret" and not (i.op == "call" and i.callee.startswith("llvm."))]
    rep.check(not late, rid, "destroy_cb.free-last", "nothing is accessed after the table structure is freed", "access after the table was freed", [i.where() for i in late[:2]])


# ---------------------------------------------------------------------------
def rule_valid(ctx, rep, rid):
    f = fn(ctx, "_cds_lfht_new_with_alloc")
    rep.touch(f)
    allocs = [i for i in f.all_insts() if i.op == "icall" and (lambda e: e[0] == "load" and e[1].endswith("cds_lfht_mm_type.alloc_cds_lfht"))(ir.expr(f, i.d["fp"]))]
    pat.require(len(allocs) == 1, "new: alloc_cds_lfht call")
    al = allocs[0]
    an = pow2.Analysis(ctx.mod("cds", "perfn"), ())
    names = {0: "init_size", 1: "min_nr_alloc_buckets"}
    for argno, nm in names.items():
        facts = pow2.dominating_facts(f, ["a", argno], al)
        rep.check({"pow2z", "nonzero"} <= facts, rid, "new.%s-pow2" % nm, "%s is rejected unless a non-zero power of two, before any allocation" % nm,
                  "%s is not validated as a non-zero power of two before allocation (missing: %s)" % (nm, sorted({"pow2z", "nonzero"} - facts)), [al.where()])
    # max_nr_buckets as passed to the allocator
    v = ir.strip_casts(f, al.args[1])
    val = an.value(f, v, al)
    rep.check(val == pow2.P, rid, "new.max-pow2", "max_nr_buckets handed to the allocator is a non-zero power of two", "max_nr_buckets handed to the allocator is %s" % val, [al.where()])
    # null returns happen before the allocation
    rz = [r for r in f.rets()]
    # init size stored: pow2 and clamped (C08.init)
    cb = pat.calls(f, "cds_lfht_create_bucket")
    pat.require(cb, "new: create_bucket")
    for c in cb:
        vv = an.value(f, c.args[1], c)
        rep.check(vv == pow2.P, rid, "new.init-size-pow2", "initial bucket count is a power of two", "initial bucket count is %s" % vv, [c.where()])
        from . import c09
        bd = c09.bounded(f, c.args[1], c, [ir.strip_casts(f, al.args[1])])
        rep.check(bd, rid, "new.init-size-clamped", "initial bucket count is clamped to max_nr_buckets", "initial bucket count is not clamped to max_nr_buckets: the allocator's table is sized from max_nr_buckets", [c.where()])


def _classifier_sig(f, B):
    """set of flag bits tested (as 'skip when set') on ->next loads inside the traversal loops of f"""
    bits_ = set()
    for b in f.blocks:
        for s in b.succ:
            for a in ir.edge_atoms(f, b.id, s):
                lv = []
                if a[0] in ("eq", "ne") and a[2] == ("c", 0):
                    pat.leaf_atoms(("icmp", "ne", a[1], ("c", 0)), a[0] == "ne", lv)
                for x in lv:
                    if x[0] in ("eq", "ne") and x[2] == ("c", 0) and x[1][0] == "bin" and x[1][1] == "and" and x[1][3][0] == "c" and x[1][2][0] == "load" and x[1][2][1].endswith(NEXT):
                        bits_.add(x[1][3][1])
    return bits_


def rule_class(ctx, rep, rid):
    B = bits(ctx)
    want = {B.REMOVED, B.BUCKET}
    for name in ("cds_lfht_lookup", "cds_lfht_next", "cds_lfht_next_duplicate", "cds_lfht_count_nodes"):
        f = fn(ctx, name)
        rep.touch(f)
        got = _classifier_sig(f, B)
        rep.check(want <= got, rid, name + ".classifier", "classifies a node as stored iff neither REMOVED nor BUCKET is set (tests bits %s)" % sorted(got),
                  "%s tests only bits %s of ->next: its notion of `stored node` differs from lookup's" % (name, sorted(got)), [f.name])
    c = fn(ctx, "cds_lfht_count_nodes")
    # count incremented only for non-removed, non-bucket
    d = fn(ctx, "cds_lfht_delete_bucket")
    got = _classifier_sig(d, B)
    rep.check(B.BUCKET in got, rid, "delete_bucket.classifier", "destroy refuses a table holding any non-bucket node", "delete_bucket does not test BUCKET", [d.name])


def rule_mm(ctx, rep, rid):
    """per allocator: alloc and free of bucket tables mirror each other; mm_type tables are complete"""
    m = ctx.mod("cds", "perfn")
    n = 0
    for gname, g in m.globals.items():
        init = g.get("init")
        if not init or init[0] != "struct" or init[1] != "cds_lfht_mm_type":
            continue
        n += 1
        slots = dict((k.split(".")[-1], v) for k, v in init[2])
        miss = [k for k in ("alloc_cds_lfht", "alloc_bucket_table", "free_bucket_table", "bucket_at") if not (slots.get(k) and slots[k][0] == "f")]
        rep.check(not miss, rid, gname + ".complete", "all four operations present", "mm_type %s lacks %s" % (gname, miss), [gname])
        if miss:
            continue
        af, ff = m.fn(slots["alloc_bucket_table"][1]), m.fn(slots["free_bucket_table"][1])
        if af is None or ff is None:
            raise Broken("mm functions of %s not defined" % gname)
        rep.touch(af)
        rep.touch(ff)
        # same top-level case split on `order` (== 0, <= min order, else), same index expressions for the slot
        def guards(f):
            out = set()
            for b in f.blocks:
                for s in b.succ:
                    for a in ir.edge_atoms(f, b.id, s):
                        if a[0] in ("eq", "ne", "ule", "ugt", "ult", "uge") and (a[1] == ("arg", 1) or a[2] == ("arg", 1)):
                            pred = a[0]
                            if pred in ("ne", "ugt", "uge"):
                                pred = pat.NEGP[pred]
                            other = a[2] if a[1] == ("arg", 1) else a[1]
                            out.add((pred, ir.expr_str(other)))
            return out
        ga, gf = guards(af), guards(ff)
        rep.check(ga == gf, rid, gname + ".same-cases", "alloc and free split on `order` identically: %s" % sorted(ga),
                  "alloc_bucket_table and free_bucket_table treat `order` differently: alloc %s, free %s" % (sorted(ga), sorted(gf)), [af.name, ff.name])
        def slots_idx(f, kinds):
            out = set()
            for i in f.all_insts():
                if i.op in kinds:
                    ap = i.d["ap"]
                    fl = pat.full_ap_fields(ap)
                    if any(x.startswith("cds_lfht.tbl_") or x.startswith("cds_lfht.<anon>") for x in fl) and ap["steps"] and "[" in ap["steps"][-1]:
                        gi = None
                        # index expression of the last gep
                        base = i.args[-1] if i.op == "store" else i.args[0]
                        bi = f.inst_of(ir.strip_casts(f, base, int_too=False))
                        if bi is not None and bi.op == "gep":
                            import re as _re
                            out.add(_re.sub(r"#\d+", "", ir.expr_str(ir.expr(f, bi.args[-1], 6))))
            return out
        # allocation is unconditional within each `order` case: whatever free_bucket_table releases for an order,
        # alloc_bucket_table allocates afresh on *every* path of that case (no "already there, keep it" shortcut: free does not
        # clear the slot, so a stale pointer from a previous shrink would be reused after it was handed back to the allocator)
        def is_alloc(i):
            if i.op == "icall":
                e = ir.expr(af, i.d["fp"])
                return e[0] == "load" and (e[1].endswith("cds_lfht_alloc.calloc") or e[1].endswith("cds_lfht_alloc.malloc") or e[1].endswith("cds_lfht_alloc.aligned_alloc"))
            return i.op == "call" and i.callee in ("mmap", "mprotect", "calloc", "malloc", "memory_map", "memory_populate")
        allocs = [i for i in af.all_insts() if is_alloc(i)]
        if allocs:
            loops = af.sccs()
            ablocks = set(i.blk.id for i in allocs)
            for comp in loops:
                if comp & ablocks:
                    ablocks |= comp
            def order_sig(path):
                sig = []
                for a_, b_ in zip(path, path[1:]):
                    for a in ir.edge_atoms(af, a_, b_):
                        if a[0] in ("eq", "ne", "ule", "ugt", "ult", "uge") and (a[1] == ("arg", 1) or a[2] == ("arg", 1)):
                            sig.append(ir.atom_str(a))
                return tuple(sig)
            by_sig = {}
            for pth in paths.enum_paths(af, 0, limit=256):
                by_sig.setdefault(order_sig(pth), []).append(any(b in ablocks for b in pth))
            mixed = [sg for sg, v in by_sig.items() if any(v) and not all(v)]
            rep.check(not mixed, rid, gname + ".alloc-unconditional", "within each case of `order`, alloc_bucket_table allocates on every path (%d cases)" % len(by_sig),
                      "alloc_bucket_table skips the allocation on some path of case %s although free_bucket_table releases that level: after a shrink the stale slot is reused "
                      "(use after free, then double free)" % (list(mixed[0]) if mixed else ""), [allocs[0].where()])
        ia, if_ = slots_idx(af, ("store",)), slots_idx(ff, ("load",))
        if ia or if_:
            rep.check(ia == if_ or not if_ or if_ <= ia, rid, gname + ".same-slots", "free reads the slots alloc wrote: %s" % sorted(ia),
                      "alloc writes table slots %s but free reads %s" % (sorted(ia), sorted(if_)), [af.name, ff.name])
    pat.require(n >= 3, "only %d cds_lfht_mm_type tables found" % n)
