"""C09 — hash-table resize terminates, preserves contents, respects bucket bounds (partial).
Decided: pow2/clamp typestate of every resize_target store, who may write `size`, allocate ≺ populate ≺
publish, unpublish ≺ GP ≺ unlink ≺ GP ≺ free, resize loop / lazy launch ordering, destroy flag ordering,
resize under resize_mutex."""
from .. import ir, mm, pat, pow2
from ..core import Broken
from . import lfht

META = {
    "explanation": "Def-use (abstract value Pow2/Pow2OrZero/Any with guard refinement and field assume/guarantee) on every value stored to "
                   "cds_lfht.resize_target and cds_lfht.size in the flattened IR of liburcu-cds, clamp-to-max_nr_buckets origin check, "
                   "who-may-write cds_lfht.size, all-paths ordering in init_table/fini_table (allocate, populate, publish; unpublish, grace period, unlink, "
                   "grace period, free), store-buffering pairs of the resize loop and lazy launch, destroy flag before queued destroy, resize under resize_mutex. "
                   "A non-power-of-two resize_target makes `size == resize_target` unreachable, so the resize loop never ends: the pow2 clause is necessary for termination.",
    "not_decided": "termination for all inputs beyond the pow2 clause; that resize never changes which nodes are in the table (linearizability)",
    "trusted_base": ["summary: 1 << cds_lfht_get_count_order_ulong(x) is the least power of two >= x (so it is Pow2, equals x when x is Pow2 and stays <= a Pow2 bound)"],
}

META["explanation"] += " " + 'Also: bucket placement of a grow compares the cursor node, partition work items and the inline fallback cover the level exactly, and the resize loop terminates under destroy (if a helper can bail out before moving size the loop re-tests the flag each round).'

AG_FIELDS = ("cds_lfht.size", "cds_lfht.max_nr_buckets", "cds_lfht.resize_target", "cds_lfht.min_nr_alloc_buckets")


def _roots(m):
    return [f for f in m.defined() if pow2.is_root(m, f)]


def _is_max_load(f, v):
    v = ir.strip_casts(f, v)
    if v[0] == "i":
        i = f.insts[v[1]]
        return i.op == "load" and pat.last_field(i.d["ap"]) == "cds_lfht.max_nr_buckets"
    return False


def bounded(f, v, at, maxsrc, depth=16, seen=frozenset()):
    """value provably <= max_nr_buckets (maxsrc: extra SSA values known to equal it in this function)"""
    v = ir.strip_casts(f, v)
    if v[0] == "c":
        return v[1] in (0, 1)
    if _is_max_load(f, v) or any(v == x for x in maxsrc):
        return True
    # dominated by a guard  v <= max
    for b in f.blocks:
        t = b.insts[-1]
        if t.op == "br" and len(t.d["succ"]) == 2 and t.d["succ"][0] != t.d["succ"][1]:
            for k, s in enumerate(t.d["succ"]):
                if len(f.blocks[s].pred) == 1 and f.bdom(s, at.blk.id):
                    a = ir.cond_atom(f, t.args[0], k == 0, 0)
    if v[0] != "i" or depth <= 0:
        return False
    i = f.insts[v[1]]
    if i.id in seen:
        return True
    seen = seen | {i.id}
    if i.op == "select":
        c, a, b = i.args
        ci = f.inst_of(ir.strip_casts(f, c))
        ba = bounded(f, a, at, maxsrc, depth - 1, seen)
        bb = bounded(f, b, at, maxsrc, depth - 1, seen)
        if ba and bb:
            return True
        if ci is not None and ci.op == "icmp":
            x, y = ci.args
            pr = ci.d["pred"]
            sa_, sb_ = ir.strip_casts(f, a), ir.strip_casts(f, b)
            sx, sy = ir.strip_casts(f, x), ir.strip_casts(f, y)
            # min(a,b): (a < b) ? a : b   or (a > b) ? b : a
            is_min = (pr in ("ult", "ule") and sx == sa_ and sy == sb_) or (pr in ("ugt", "uge") and sx == sb_ and sy == sa_)
            if is_min and (ba or bb):
                return True
        return False
    if i.op == "phi":
        return all(bounded(f, x[0], f.blocks[x[1]].insts[-1], maxsrc, depth - 1, seen) for x in i.d["inc"])
    if i.op == "bin":
        if i.d["bop"] == "lshr":
            return bounded(f, i.args[0], at, maxsrc, depth - 1, seen)
        if i.d["bop"] == "shl" and ir.const_of(f, i.args[0]) == 1:
            o = f.inst_of(ir.strip_casts(f, i.args[1]))
            if o is not None and o.op == "call" and o.callee == "cds_lfht_get_count_order_ulong":
                return bounded(f, o.args[0], at, maxsrc, depth - 1, seen)
    return False


def _max_args(m, f):
    """SSA values that a callee (direct, or through a function-pointer slot) stores into
    cds_lfht.max_nr_buckets: they equal the table's bound from then on."""
    out = []
    for i in f.all_insts():
        targets = []
        if i.op == "call" and m.fn(i.callee) is not None:
            targets = [m.fn(i.callee)]
        elif i.op == "icall":
            fp = f.inst_of(ir.strip_casts(f, i.d["fp"]))
            if fp is not None and fp.op == "load":
                slot = pat.last_field(fp.d["ap"])
                for g in m.defined():
                    if g.linkage == "internal" and slot in pow2.slots_of(m, g.name)[0]:
                        targets.append(g)
        for t in targets:
            for e in pat.accesses(t, "cds_lfht.max_nr_buckets", ("store",)):
                v = ir.strip_casts(t, e.val)
                if v[0] == "a" and v[1] < len(i.args):
                    out.append(ir.strip_casts(f, i.args[v[1]]))
    return out


def rule_pow2(ctx, rep, pfx="C09"):
    m = ctx.mod("cds", "flat")
    an = pow2.Analysis(m, AG_FIELDS)
    n = 0
    for f in _roots(m):
        sinks = pat.accesses(f, "cds_lfht.resize_target", ("store", "rmw", "cmpxchg", "xchg"))
        if not sinks:
            continue
        rep.touch(f)
        # values equal to max_nr_buckets inside this function: whatever is stored to the field
        maxsrc = [ir.strip_casts(f, e.val) for e in pat.accesses(f, "cds_lfht.max_nr_buckets", ("store",))]
        maxsrc += _max_args(m, f)
        for e in sinks:
            n += 1
            v = e.val if e.kind in ("store", "xchg") else (e.new if e.kind == "cmpxchg" else None)
            site = e.inst.where()
            org = e.inst.origin_fn
            inst = "%s:%s@%s" % (f.name, org, e.inst.short())
            key = pfx + ".pow2:%s→cds_lfht.resize_target" % org
            if v is None:
                rep.bad(pfx + ".pow2", inst, "resize_target modified by an arithmetic RMW (%s): value not a power of two in general" % e.rop, [site], key=key)
                continue
            val = an.value(f, v, e.inst)
            vs = ir.expr_str(ir.expr(f, v, 6))
            if val == pow2.P:
                rep.ok(pfx + ".pow2", inst, "value stored to resize_target is a power of two >= 1: %s" % vs[:160], [site])
            else:
                rep.bad(pfx + ".pow2", inst, "value stored to cds_lfht.resize_target is %s, not provably a power of two (origin %s): `size` only takes values 1<<i, so the "
                        "resize loop `while (size != resize_target)` cannot terminate for such a target" % (val, vs[:200]), [site], key=key)
            bd = bounded(f, v, e.inst, maxsrc)
            keyb = pfx + ".clamp:%s→cds_lfht.resize_target" % org
            if bd:
                rep.ok(pfx + ".clamp", inst, "value stored to resize_target is clamped to max_nr_buckets", [site])
            else:
                rep.bad(pfx + ".clamp", inst, "value stored to cds_lfht.resize_target is not clamped to max_nr_buckets (origin %s)" % vs[:200], [site], key=keyb)
    if n < 4:
        raise Broken("only %d stores to cds_lfht.resize_target found (hand-confirmed: new, resize, lazy grow, lazy count grow/shrink)" % n)


def rule_size(ctx, rep):
    """who may write cds_lfht.size, and only values 1 << i"""
    m = ctx.mod("cds", "flat")
    allowed = {"_cds_lfht_new_with_alloc", "init_table", "fini_table"}
    n = 0
    for f in _roots(m):
        for e in pat.accesses(f, "cds_lfht.size", ("store", "rmw", "cmpxchg", "xchg")):
            n += 1
            rep.touch(f)
            org = e.inst.origin_fn
            inst = "%s:%s@%s" % (f.name, org, e.inst.short())
            if org not in allowed:
                rep.bad("C09.size", inst, "cds_lfht.size written outside {new, init_table, fini_table}", [e.inst.where()])
                continue
            v = ir.strip_casts(f, e.val) if e.val is not None else None
            vi = f.inst_of(v) if v else None
            good = vi is not None and vi.op == "bin" and vi.d["bop"] == "shl" and ir.const_of(f, vi.args[0]) == 1
            rep.check(good, "C09.size", inst, "size store has shape 1 << i", "size store is not of shape 1 << i: %s" % ir.expr_str(ir.expr(f, e.val, 5)) if e.val else "rmw", [e.inst.where()])
    if n < 3:
        raise Broken("only %d stores to cds_lfht.size found" % n)


def rule_loop(ctx, rep):
    from . import lfht
    from .. import lockset
    f = lfht.fn(ctx, "_do_cds_lfht_resize")
    rep.touch(f)
    z = [s for s in pat.stores(f, "cds_lfht.resize_initiated") if ir.const_of(f, s.args[0]) == 0]
    tl = pat.loads(f, "cds_lfht.resize_target")
    dl = pat.loads(f, "cds_lfht.in_progress_destroy")
    work = pat.calls(f, "_do_cds_lfht_grow") + pat.calls(f, "_do_cds_lfht_shrink")
    pat.require(z and tl and work, "_do_cds_lfht_resize anatomy")
    after = [l for l in tl if f.reach(z, [l])[0] is not None and not any(f.dominates(l, w) for w in work)]
    pat.require(after, "resize loop: re-read of resize_target after clearing resize_initiated")
    rep.must_pass("C09.loop", "resize.initiated=0≺FULL≺target", f, z, after, mm.is_full,
                  what="FULL barrier between clearing resize_initiated and re-reading resize_target (store→load pair with the lazy launcher)")
    if not dl:
        rep.bad("C09.loop", "resize.tests-destroy", "resize loop never tests in_progress_destroy", [f.name])
    else:
        rep.must_pass("C09.loop", "resize.destroy-test-first", f, [f.entry()], work, lambda i: i in dl, include_start=True, what="in_progress_destroy is tested before every grow/shrink round")
    # loop exit only when size == target (or destroy)
    scc = f.sccs()
    pat.require(scc, "resize loop vanished")
    for comp in scc:
        for b in comp:
            for s_ in f.blocks[b].succ:
                if s_ in comp:
                    continue
                atoms = ir.edge_atoms(f, b, s_)
                ok = any((a[0] == "eq" and a[1][0] == "load" and a[1][1].endswith("cds_lfht.size") and a[2][0] == "load" and a[2][1].endswith("cds_lfht.resize_target")) or
                         (a[0] == "ne" and a[2] == ("c", 0) and a[1][0] == "load" and a[1][1].endswith("in_progress_destroy")) for a in atoms)
                rep.check(ok, "C09.loop", "resize.exit@B%d" % b, "loop is left only when size == resize_target or the table is being destroyed",
                          "resize loop can be left while size != resize_target: a target update made during the resize is lost", [f.blocks[b].insts[-1].where()])
    # termination under destroy: if init_table / fini_table can give up on in_progress_destroy *before* having moved `size`
    # (a no-progress return), size never reaches the target, so the resize loop itself must notice the flag on every round -
    # a test hoisted in front of the loop does not.  If every destroy exit of the two helpers follows a size update the loop
    # still terminates by progress and no in-loop test is demanded.
    noprog = []
    for name in ("init_table", "fini_table"):
        t = lfht.fn(ctx, name)
        rep.touch(t)
        szst = [e.inst for e in pat.accesses(t, "cds_lfht.size", ("store", "rmw", "xchg", "cmpxchg"))]
        pat.require(szst, "%s: size update" % name)
        for tb, s_, a in pat.branch_edges_on(t, lambda a: a[0] == "ne" and a[2] == ("c", 0) and a[1][0] == "load" and a[1][1].endswith("in_progress_destroy")):
            hit, _par = t.reach([t.entry()], [tb], avoid=lambda i: i in szst, include_start=True)
            if hit is not None:
                noprog.append((name, tb))
    for comp in scc:
        dl_in = [l for l in dl if l.blk.id in comp]
        exits_on_destroy = any(a[0] == "ne" and a[2] == ("c", 0) and a[1][0] == "load" and a[1][1].endswith("in_progress_destroy")
                               for b in comp for s_ in f.blocks[b].succ if s_ not in comp for a in ir.edge_atoms(f, b, s_))
        ok = (not noprog) or (bool(dl_in) and exits_on_destroy)
        rep.check(ok, "C09.loop", "resize.destroy-terminates", "under destroy the resize loop terminates: %s" % ("the helpers only bail out after moving size" if not noprog else "it re-tests in_progress_destroy every round"),
                  "%s can return on in_progress_destroy without having changed size, and the `while (size != resize_target)` loop does not test the flag: the work-queue thread spins "
                  "forever and the destroy work queued behind it never runs" % sorted(set(n for n, _ in noprog)), [tb.where() for _n, tb in noprog][:2] + [f.blocks[min(comp)].insts[0].where()])
    g = lfht.fn(ctx, "__cds_lfht_resize_lazy_launch")
    rep.touch(g)
    q = pat.calls(g, "urcu_workqueue_queue_work")
    pat.require(q, "lazy launch: queue_work")
    for c in q:
        lv = pat.dom_leaf_atoms(g, c)
        oki = any(a[0] == "eq" and a[2] == ("c", 0) and a[1][0] == "load" and a[1][1].endswith("resize_initiated") for a in lv)
        okd = any(a[0] == "eq" and a[2] == ("c", 0) and a[1][0] == "load" and a[1][1].endswith("in_progress_destroy") for a in lv)
        rep.check(oki and okd, "C09.loop", "launch.guards", "resize work is queued only when none is initiated and the table is not being destroyed",
                  "resize work queued without testing %s" % ", ".join(n for n, v in (("resize_initiated", oki), ("in_progress_destroy", okd)) if not v), [c.where()])
    ones = [s for s in pat.stores(g, "cds_lfht.resize_initiated") if ir.const_of(g, s.args[0]) == 1]
    rep.must_pass("C09.loop", "launch.sets-initiated", g, q, None, lambda i: i in ones, to_exit=True, what="resize_initiated is set after queueing the work")
    # lazy callers: target update (FULL) precedes the launch test
    for name in ("cds_lfht_resize_lazy_grow", "cds_lfht_resize_lazy_count"):
        h = lfht.fn(ctx, name)
        rep.touch(h)
        la = pat.calls(h, "__cds_lfht_resize_lazy_launch")
        pat.require(la, "%s: launch call" % name)
        upd = pat.calls(h, "resize_target_grow") + [e.inst for e in pat.accesses(h, "cds_lfht.resize_target", ("cmpxchg", "xchg", "rmw"))]
        rep.must_pass("C09.loop", name + ".target≺launch", h, [h.entry()], la, lambda i: i in upd, include_start=True,
                      what="resize_target is updated (full-barrier RMW) before resize_initiated is tested")
    # resize under resize_mutex
    for name in ("cds_lfht_resize", "do_resize_cb"):
        h = lfht.fn(ctx, name)
        rep.touch(h)
        ls = lockset.compute(h)
        c = pat.calls(h, "_do_cds_lfht_resize")
        pat.require(c, "%s: resize call" % name)
        held = [x for x in c if any(k.endswith("cds_lfht.resize_mutex") for k in ls.get(x.id, ()))]
        # wrappers mutex_lock/mutex_unlock are calls in this view: summarise by name
        if not held:
            ls = lockset.compute(h, summaries={})
            lk = [x for x in pat.calls(h, "mutex_lock") if x.d["aps"][0] and pat.last_field(x.d["aps"][0]) == "cds_lfht.resize_mutex"]
            ul = [x for x in pat.calls(h, "mutex_unlock") if x.d["aps"][0] and pat.last_field(x.d["aps"][0]) == "cds_lfht.resize_mutex"]
            ok = bool(lk) and all(h.reach([h.entry()], [x], avoid=lambda i: i in lk, include_start=True)[0] is None for x in c) and all(h.reach(ul, [x])[0] is None for x in c)
            rep.check(ok, "C09.lock", name, "_do_cds_lfht_resize runs with resize_mutex held", "_do_cds_lfht_resize called without resize_mutex: two resizes may run concurrently", [x.where() for x in c])
        else:
            rep.ok("C09.lock", name, "_do_cds_lfht_resize runs with resize_mutex held", [x.where() for x in c])
    d = lfht.fn(ctx, "cds_lfht_destroy")
    if not pat.calls_opt(d, "urcu_workqueue_queue_work"):
        d = ctx.mod("cds", "flat").fn("cds_lfht_destroy") or d      # deferred branch extracted into a static helper: use the flattened entry point
    rep.touch(d)
    q = pat.calls(d, "urcu_workqueue_queue_work")
    fl = [s for s in pat.stores(d, "cds_lfht.in_progress_destroy") if ir.const_of(d, s.args[0]) == 1]
    pat.require(q, "destroy: queue_work")
    if not fl:
        rep.bad("C09.destroy", "flag", "cds_lfht_destroy never sets in_progress_destroy: queued resizes keep running on a table being destroyed", [q[0].where()])
    else:
        rep.must_pass("C09.destroy", "flag≺queue", d, [d.entry()], q, lambda i: i in fl, include_start=True, what="in_progress_destroy is set before the destroy work is queued (same FIFO as resizes)")
    for name in ("init_table", "fini_table"):
        t = lfht.fn(ctx, name)
        dl = pat.loads(t, "cds_lfht.in_progress_destroy")
        rep.check(bool(dl) and all(x.blk.id in set().union(*t.sccs()) for x in dl), "C09.destroy", name + ".retests", "%s re-tests in_progress_destroy at every level" % name,
                  "%s does not re-test in_progress_destroy inside its level loop" % name, [t.name])


def rule_partition(ctx, rep, rid="C09.partition"):
    """partition_resize_helper: the whole range is processed on every return: either worker threads ran and were
    joined (thread count != 0) and nothing is left (start == 0), or the remaining range is done inline"""
    from . import lfht
    f = lfht.fn(ctx, "partition_resize_helper")
    rep.touch(f)
    fb = [i for i in f.all_insts() if i.op == "icall" and ir.expr(f, i.d["fp"]) == ("arg", 3)]
    joins = pat.calls(f, "pthread_join")
    pat.require(fb and joins, "partition_resize_helper anatomy (inline fallback / join)")
    # bound of the join loop = number of threads actually created
    bound = None
    for comp in f.sccs():
        if any(j.blk.id in comp for j in joins):
            for b in comp:
                for s_ in f.blocks[b].succ:
                    for a in ir.edge_atoms(f, b, s_):
                        if a[0] == "ult" and s_ in comp:
                            bound = a[2]
    pat.require(bound is not None, "join loop bound not recognised")
    good = []
    for b in f.blocks:
        t = b.insts[-1]
        if t.op != "br" or len(t.d["succ"]) != 2 or t.d["succ"][0] == t.d["succ"][1]:
            continue
        e = ir.expr(f, t.args[0], 8)
        for k, s_ in enumerate(t.d["succ"]):
            lv = []
            pat.leaf_atoms(e if e[0] in ("icmp", "bin", "select") else ("icmp", "ne", e, ("c", 0)), k == 0, lv)
            if any((a[0] in ("ugt", "ne") and a[1] == bound and a[2] == ("c", 0)) or (a[0] == "uge" and a[1] == bound and a[2][0] == "c" and a[2][1] >= 1) for a in lv):
                good.append((b.id, s_))
    rep.must_take_edge(rid, "helper.inline-unless-threads-ran", f, joins, None, good, to_exit=True, include_start=False, avoid=lambda i: i in fb,
                       what="after joining, the helper returns without running the inline fallback only if at least one worker thread was created")
    rep.must_take_edge(rid, "helper.fallback-or-threads", f, [f.entry()], None, good, to_exit=True, include_start=True, avoid=lambda i: i in fb,
                       what="every return either ran the inline fallback or passed the `threads created > 0` test")
    # ... and only when no partition was left over: `start == 0` (a pthread_create that failed part-way leaves start = first unprocessed bucket)
    if fb:
        sv = ir.expr(f, fb[0].args[2], 2)
        zero_start = []
        for b in f.blocks:
            for s_ in b.succ:
                if len(b.succ) < 2:
                    continue
                for a in ir.edge_atoms(f, b.id, s_):
                    lv = []
                    if len(a) == 3 and a[0] == "ne" and a[2] == ("c", 0) and a[1][0] in ("select", "bin", "icmp"):
                        pat.leaf_atoms(("icmp", "ne", a[1], ("c", 0)), True, lv)
                    else:
                        lv = [a]
                    if any(len(x) == 3 and x[0] == "eq" and x[2] == ("c", 0) and (x[1] == sv or (x[1][0] == "phi" and sv[0] == "phi")) for x in lv):
                        zero_start.append((b.id, s_))
                    if any(len(x) == 3 and x[0] == "ne" and x[2] == ("c", 0) and x[1] == sv for x in lv):
                        hit_, _ = f.reach([f.blocks[s_].insts[0]], None, avoid=lambda i: i in fb, stop_at_exit=True, include_start=True)
                        if hit_ is not None and hit_.op == "ret" and not f.reach([f.blocks[s_].insts[0]], fb, include_start=True)[0]:
                            rep.bad(rid, "helper.skip-fallback-only-if-start-0", "the helper returns without the inline fallback exactly when start != 0: the partitions left over by a failed pthread_create are never processed "
                                    "(new buckets stay unpopulated / removed levels stay linked)", [f.blocks[b.id].insts[-1].where()])
                            zero_start.append((b.id, s_))
        if zero_start:
            rep.must_take_edge(rid, "helper.skip-fallback-only-if-start-0", f, joins, None, zero_start, to_exit=True, include_start=False, avoid=lambda i: i in fb,
                               what="after joining, the helper returns without the inline fallback only when start == 0 (no partition left over by a failed pthread_create)")
        else:
            rep.unk(rid, "helper.skip-fallback-only-if-start-0", "the test of `start` that decides whether the inline fallback runs is not recognised")
    for i in fb:
        rep.check(ir.expr(f, i.args[0]) == ("arg", 0) and ir.expr(f, i.args[1]) == ("arg", 1), rid, "helper.fallback-args", "fallback processes the same table and level", "fallback called on different table/level", [i.where()])
    # the inline fallback covers everything the threads did not: (start, len) is (0, len) or (S, len - S) on every way into it
    def pairs(vs, vl, seen):
        a, b = ir.strip_casts(f, vs), ir.strip_casts(f, vl)
        ia = f.insts[a[1]] if a[0] == "i" else None
        ib = f.insts[b[1]] if b[0] == "i" else None
        if ia is not None and ib is not None and ia.op == "phi" and ib.op == "phi" and ia.blk.id == ib.blk.id and (ia.id, ib.id) not in seen:
            seen = seen | {(ia.id, ib.id)}
            out = []
            db = dict((blk, v) for v, blk in ib.d["inc"])
            for v, blk in ia.d["inc"]:
                out += pairs(v, db[blk], seen)
            return out
        return [(ir.expr(f, vs, 6), ir.expr(f, vl, 6))]
    for i in fb:
        ps = pairs(i.args[2], i.args[3], frozenset())
        bad = [(s_, l_) for s_, l_ in ps if not ((s_ == ("c", 0) and l_ == ("arg", 2)) or (l_ == ("bin", "sub", ("arg", 2), s_)))]
        rep.check(len(ps) >= 2 and not bad, rid, "helper.fallback-covers-rest", "the inline fallback processes [start, len) completely: (0, len) or (S, len - S) on each of %d ways into it" % len(ps),
                  "the inline fallback is called with (start, len) = %s: part of the level is neither handled by a worker thread nor inline "
                  "(buckets left unlinked / unpopulated)" % [(ir.expr_str(a), ir.expr_str(b)) for a, b in bad][:2], [i.where()])
    # the partitions tile the level only when the thread count is a power of two (partition_len = len >> order(nr_threads), len a power of
    # two): nr_threads comes from nr_cpus_mask + 1, so whoever writes nr_cpus_mask stores (a power of two) - 1 or a negative sentinel
    m_ = ctx.mod("cds", "perfn")
    if pat.loads(f, glob="nr_cpus_mask"):
        nst = 0
        for g in m_.defined():
            for s_ in pat.stores(g, glob="nr_cpus_mask"):
                nst += 1
                v = ir.expr(g, s_.args[0], 8)
                cv = ir.const_of(g, s_.args[0])
                inst_ = "helper.thread-count-pow2@%s:%d" % (g.srcname, s_.line)
                if cv is not None:
                    rep.check(cv < 0 or (cv + 1) & cv == 0, rid, inst_, "nr_cpus_mask constant %d is a sentinel / a power of two minus one" % cv, "nr_cpus_mask is set to %d: nr_cpus_mask + 1 worker partitions do not tile a level" % cv, [s_.where()])
                elif v[0] == "bin" and ((v[1] == "sub" and v[3] == ("c", 1)) or (v[1] == "add" and v[3] == ("c", -1))) and v[2][0] == "bin" and v[2][1] == "shl" and v[2][2] == ("c", 1):
                    rep.ok(rid, inst_, "nr_cpus_mask = (1 << order) - 1")
                elif v[0] == "bin" and ((v[1] == "sub" and v[3] == ("c", 1)) or (v[1] == "add" and v[3] == ("c", -1))) and ir.expr_contains(v[2], lambda z: z[0] == "call") and not ir.expr_contains(v[2], lambda z: z[0] == "bin" and z[1] == "shl"):
                    rep.bad(rid, inst_, "nr_cpus_mask is the raw CPU count minus one (%s): on a machine whose CPU count is not a power of two partition_resize_helper's threads cover only "
                            "nr_threads * (len >> order(nr_threads)) < len buckets of a level and the inline fallback is skipped - new buckets stay unpopulated (nodes no longer found), removed levels stay linked" % ir.expr_str(v), [s_.where()])
                else:
                    rep.unk(rid, inst_, "value stored to nr_cpus_mask not recognised: %s" % ir.expr_str(v))
        pat.require(nst >= 1, "no writer of nr_cpus_mask found")
    # the creation and the join loop are `for (t = 0; t < n; t++)`: a loop that starts at 1 leaves partition 0 to nobody (and joins a thread
    # id that was never written), `<=` hands out a partition beyond the level
    nloops = 0
    for ph, inits, steps, stays in pat.counted_loops(f):
        nl = pat.natural_loop(f, ph)
        if not any(i.op == "call" and i.callee in ("pthread_create", "pthread_join") and i.blk.id in nl for i in f.all_insts()):
            continue
        nloops += 1
        which = "create" if any(i.op == "call" and i.callee == "pthread_create" and i.blk.id in nl for i in f.all_insts()) else "join"
        where = [stays[0][1].where()]
        rep.check(inits == [0], rid, "helper.%s-loop.from-0" % which, "the %s loop starts at thread 0" % which, "the %s loop starts at %s: partition 0 is %s" % (which, inits, "never processed" if which == "create" else "never joined (the level is published while a worker still fills it)"), where)
        okstep = bool(steps) and all(e[0] == "bin" and e[1] == "add" and e[3] == ("c", 1) and e[2] == ("phi", ph.id) for e in steps)
        if okstep:
            rep.ok(rid, "helper.%s-loop.step-1" % which, "the %s loop advances by one" % which)
        elif steps and all(e[0] == "bin" and e[1] in ("add", "sub") and e[3][0] == "c" and e[2] == ("phi", ph.id) for e in steps):
            rep.bad(rid, "helper.%s-loop.step-1" % which, "the %s loop advances by %s" % (which, [ir.expr_str(e) for e in steps]), where)
        else:
            rep.unk(rid, "helper.%s-loop.step-1" % which, "step of the %s loop not recognised: %s" % (which, [ir.expr_str(e) for e in steps]))
        for a, t in stays:
            if a[1] == ("phi", ph.id):
                rep.check(a[0] in ("ult", "ne", "slt"), rid, "helper.%s-loop.bound" % which, "the %s loop continues while t < n" % which,
                          "the %s loop continues while t %s n: %s" % (which, a[0], "one partition too many is handed out (beyond the level)" if a[0] in ("ule", "sle") else "the threads are not all %s" % ("created" if which == "create" else "joined")), [t.where()])
    pat.require(nloops >= 2, "partition_resize_helper: create / join loops not recognised (%d)" % nloops)
    # every field of the work item the worker thread reads is written before the thread is created (the array comes from calloc: a missing
    # store is a NULL table / NULL function / level 0 in the worker)
    from . import lfht as _l
    wt = ctx.mod("cds", "perfn").fn("partition_resize_thread")
    pcs = [i for i in f.all_insts() if i.op == "call" and i.callee == "pthread_create"]
    if wt is not None and pcs:
        rep.touch(wt)
        rd = sorted(set(pat.last_field(l.d["ap"]) for l in wt.all_insts() if l.op == "load" and l.d.get("ap") and (pat.last_field(l.d["ap"]) or "").startswith("partition_resize_work.")))
        pat.require(len(rd) >= 4, "partition_resize_thread reads only %s" % rd)
        for fld in rd:
            sts = [s_ for s_ in f.all_insts() if s_.op == "store" and s_.d.get("ap") and pat.last_field(s_.d["ap"]) == fld]
            if not sts:
                rep.bad(rid, "helper.work-init." + fld.split(".")[1], "the worker thread reads work->%s, which partition_resize_helper never writes (zero from calloc)" % fld.split(".")[1], [pcs[0].where()])
            else:
                rep.must_pass(rid, "helper.work-init." + fld.split(".")[1], f, [f.entry()], pcs, lambda i, sts=sts: i in sts, include_start=True, what="work->%s is written before the worker thread is created" % fld.split(".")[1])
        vals = {"ht": ("arg", 0), "i": ("arg", 1), "fct": ("arg", 3)}
        for k_, want in vals.items():
            for s_ in [x for x in f.all_insts() if x.op == "store" and x.d.get("ap") and pat.last_field(x.d["ap"]) == "partition_resize_work." + k_]:
                rep.check(ir.expr(f, s_.args[0], 3) == want, rid, "helper.work-value." + k_, "work->%s is the helper's own %s" % (k_, k_), "work->%s is set to %s" % (k_, ir.expr_str(ir.expr(f, s_.args[0], 3))), [s_.where()])
    # ... the thread count is min(nr_cpus_mask + 1, len >> k) or 1 (all powers of two), and partition_len = len >> order(thread count)
    co = [c_ for c_ in f.calls() if c_.callee and c_.callee.endswith("get_count_order_ulong")]
    lnst = [s_ for s_ in pat.stores(f, "partition_resize_work.len")]
    if co and lnst:
        nt = ir.expr(f, co[0].args[0], 10, through_phi=True)
        offs = [z for z in ir.subexprs(nt) if z[0] == "bin" and z[1] in ("add", "sub") and z[2][0] == "load" and z[2][1] == "@nr_cpus_mask"]
        badoff = [z for z in offs if not ((z[1] == "add" and z[3] == ("c", 1)) or (z[1] == "sub" and z[3] == ("c", -1)))]
        shifts = [z for z in ir.subexprs(nt) if z[0] == "bin" and z[1] in ("shl", "lshr", "ashr") and z[2] == ("arg", 2)]
        if not offs:
            rep.unk(rid, "helper.thread-count=cpus", "the thread count %s is not derived from nr_cpus_mask in a way this rule recognises" % ir.expr_str(nt)[:120])
        else:
            rep.check(not badoff, rid, "helper.thread-count=cpus", "the thread count is taken from nr_cpus_mask + 1",
                      "the thread count is computed from %s: not a power of two, so nr_threads * (len >> order(nr_threads)) does not cover the level" % [ir.expr_str(z) for z in badoff][:1], [co[0].where()])
        rep.check(all(z[1] == "lshr" for z in shifts), rid, "helper.thread-count<=len", "the thread count is capped by len >> k", "the cap on the thread count is %s" % [ir.expr_str(z) for z in shifts if z[1] != "lshr"][:1], [co[0].where()])
        pl = ir.expr(f, lnst[0].args[0], 6)
        okpl = pl[0] == "bin" and pl[1] == "lshr" and pl[2] == ("arg", 2) and pl[3][0] == "call" and pl[3][1].endswith("get_count_order_ulong")
        if okpl or not (pl[0] == "bin" and pl[1] in ("shl", "lshr", "ashr", "mul") and pl[2] == ("arg", 2)):
            rep.check(okpl, rid, "helper.partition_len", "partition_len = len >> order(thread count)", "", [lnst[0].where()]) if okpl else rep.unk(rid, "helper.partition_len", "partition_len = %s: shape not recognised" % ir.expr_str(pl)[:120])
        else:
            rep.bad(rid, "helper.partition_len", "partition_len = %s: the partitions do not tile [0, len) (buckets beyond the level are written, or part of it is skipped)" % ir.expr_str(pl), [lnst[0].where()])
    # partitions: work[t] = (t * partition_len, partition_len)
    st = [s_ for s_ in pat.stores(f, "partition_resize_work.start")]
    ln = [s_ for s_ in pat.stores(f, "partition_resize_work.len")]
    pat.require(len(st) == 1 and len(ln) == 1, "partition_resize_helper: work item initialisation")
    es, el = ir.expr(f, st[0].args[0], 4), ir.expr(f, ln[0].args[0], 4)
    okp = es[0] == "bin" and es[1] == "mul" and el in (es[2], es[3]) and any(x[0] == "phi" for x in (es[2], es[3]))
    rep.check(okp, rid, "helper.partitions", "worker t gets (t * partition_len, partition_len)", "work item is (start=%s, len=%s)" % (ir.expr_str(es), ir.expr_str(el)), [st[0].where()])


def rule_order(ctx, rep):
    from . import lfht
    lfht.rule_grow(ctx, rep, "C09.order")
    lfht.rule_shrink(ctx, rep, "C09.order")


def rule_countorder(ctx, rep):
    """Every size the table accepts (initial, minimum, maximum, requested resize) becomes a level count through
    cds_lfht_get_count_order_ulong(x) = the least order with x <= 1 << order = fls(x - 1) for x > 0, and fls(y) is `index of the most
    significant set bit + 1` (0 for y = 0).  An order that is off by one makes the table larger than max_nr_buckets (or half the size
    asked for), and for x = 1 shifts by a negative amount.  Decided on the shape of the two functions of this configuration."""
    m = ctx.mod("cds", "perfn")
    co = m.fn("cds_lfht_get_count_order_ulong")
    if co is None:
        raise Broken("cds_lfht_get_count_order_ulong vanished")
    rep.touch(co)
    from .. import linear
    seen = 0
    for r in co.rets():
        e = ir.expr(co, r.args[0], 8, through_phi=False)
        alts = [(ir.expr(co, v, 8), blk) for v, blk in co.insts[e[1]].d["inc"]] if e[0] == "phi" else [(e, r.blk.id)]
        for a, blk in alts:
            guard = list(pat.dom_leaf_atoms(co, co.blocks[blk].insts[0]))
            if e[0] == "phi" and len(co.blocks[blk].succ) >= 2:
                guard += list(ir.edge_atoms(co, blk, co.insts[e[1]].blk.id))        # the value arrives along a conditional edge
            a2 = a
            while a2[0] == "cast":
                a2 = a2[-1]
            if a2[0] == "c":
                seen += 1
                rep.check(a2[1] == -1 and ("eq", ("arg", 0), ("c", 0)) in guard, "C09.countorder", "zero", "count order is -1 exactly for x == 0",
                          "the constant %d is returned under %s instead of -1 under x == 0" % (a2[1], [g_ for g_ in guard if g_[1] == ("arg", 0)]), [r.where()])
            elif a2[0] == "call":
                seen += 1
                ci = co.insts[a2[2]]
                arg = linear.norm(ir.expr(co, ci.args[0], 8))
                rep.check(("ne", ("arg", 0), ("c", 0)) in guard, "C09.countorder", "nonzero", "fls(x - 1) is used for x != 0", "fls(x - 1) is evaluated under %s" % [g_ for g_ in guard if g_[1] == ("arg", 0)], [ci.where()])
                rep.check(arg == {("t", "arg0"): 1, 1: -1} or arg == linear.norm(("bin", "add", ("arg", 0), ("c", -1))), "C09.countorder", "fls(x-1)", "count order of x > 0 is fls(x - 1)",
                          "count order of x is fls(%s), not fls(x - 1): sizes are rounded to the wrong power of two (a table created at max_nr_buckets exceeds it; order of 1 is not 0)"
                          % linear.show(arg) if arg is not None else "?", [ci.where()])
                g = m.fn(ci.callee)
                hops = 0
                while g is not None and hops < 3:
                    rs = [ir.expr(g, x.args[0], 8) for x in g.rets() if x.args]
                    inner = [x for x in rs if x[0] == "call"]
                    if len(rs) == 1 and inner and not any(i.op == "asm" for i in g.all_insts()):
                        g = m.fn(inner[0][1])
                        hops += 1
                        continue
                    break
                if g is None:
                    raise Broken("fls helper of cds_lfht_get_count_order_ulong not found")
                rep.touch(g)
                asm = [i for i in g.all_insts() if i.op == "asm"]
                if asm and "bsr" in asm[0].d.get("asm", ""):
                    for x in g.rets():
                        ee = ir.expr(g, x.args[0], 8)
                        while ee[0] == "cast":
                            ee = ee[-1]
                        ok = ee[0] == "bin" and ee[1] == "add" and ee[3] == ("c", 1) and ir.expr_contains(ee[2], lambda z: z[0] == "asm")
                        rep.check(ok, "C09.countorder", "fls=bsr+1", "fls(y) is the bsr bit index + 1 (0 when no bit is set: the asm loads -1)",
                                  "fls(y) returns %s instead of bsr + 1: every size-to-order conversion is off" % ir.expr_str(ee), [x.where()])
                    rep.check("$$-1" in asm[0].d["asm"] or "$-1" in asm[0].d["asm"], "C09.countorder", "fls(0)", "bsr of 0 yields -1, so fls(0) = 0", "the no-bit-set case of the bsr sequence does not load -1", [asm[0].where()])
                else:
                    rep.unk("C09.countorder", "fls", "fls implementation of this configuration is not the bsr sequence this rule knows")
            else:
                rep.unk("C09.countorder", "shape", "return value of cds_lfht_get_count_order_ulong not recognised: %s" % ir.expr_str(a))
    pat.require(seen >= 2, "cds_lfht_get_count_order_ulong: zero / non-zero cases")
    z = [(b.id, s_) for b in co.blocks for s_ in b.succ for a in ir.edge_atoms(co, b.id, s_) if a == ("eq", ("arg", 0), ("c", 0))]
    rep.check(bool(z), "C09.countorder", "zero-test", "x == 0 is tested", "x == 0 is not singled out: fls(0 - 1) = word size is returned for an empty size", [co.name])


def rule_wqwake(ctx, rep):
    """work queue (resize / destroy worker): futex_wake_up resets the word before FUTEX_WAKE, only when it is -1"""
    from .. import waitloop as _wl
    _wl.check_wakers(rep, "C09.wqwake", "cds", ctx.mod("cds", "perfn"), lambda name, ap: ap["base"] == ["a", 0] and not ap["steps"])


def rule_floor(ctx, rep):
    """T10 sibling agreement on the lower bound: every producer of a resize target that applies a floor (max(x, F)) and the
    shrink executor (_do_cds_lfht_shrink clamps the size it shrinks to) use the *same* floor.  If the executor's floor is
    higher than a producer's, a published target below it can never be reached: `while (size != resize_target)` spins (or the
    `new_size < old_size` assertion fires) and everything queued behind the resize - including destroy - never runs."""
    m = ctx.mod("cds", "perfn")
    floors = {}
    for name in ("resize_target_update_count", "cds_lfht_resize_lazy_count", "_do_cds_lfht_shrink"):
        f = lfht.fn(ctx, name)
        rep.touch(f)
        fl_ = set()
        for i in f.all_insts():
            if i.op != "select":
                continue
            e = ir.expr(f, ["i", i.id], 4)
            # max(x, F) == sel(x ugt F, x, F)
            if e[1][0] == "icmp" and e[1][1] in ("ugt", "uge") and e[2] == e[1][2] and e[3] == e[1][3]:
                fl_.add(ir.expr_str(e[3]))
            elif e[1][0] == "icmp" and e[1][1] in ("ult", "ule") and e[3] == e[1][2] and e[2] == e[1][3]:
                fl_.add(ir.expr_str(e[2]))
        if not fl_:
            raise Broken("%s: lower-bound clamp (max(x, floor)) not recognised" % name)
        floors[name] = fl_
    allf = set().union(*floors.values())
    rep.check(len(allf) == 1, "C09.floor", "same-floor", "target producers and the shrink executor clamp to the same lower bound (%s)" % sorted(allf),
              "lower bounds differ: %s - a target published below the executor's floor is unreachable, the resize loop never terminates" % dict((k, sorted(v)) for k, v in floors.items()),
              ["%s: %s" % (k, sorted(v)) for k, v in floors.items()])


META["explanation"] += " " + 'Also (rounds 10-11): size -> order conversion (fls(x - 1), bsr + 1, zero case), every writer of nr_cpus_mask stores a power of two minus one (partition tiling), work-queue creation initialises the queue before the worker.'

META["explanation"] += " " + 'Also (round 12 and fifth reading): level loops include both end levels, partition loops run while index < bound, the inline fallback is skipped only when start == 0, RT polarity of the work-queue worker, allocator discipline.'

META["explanation"] += " " + 'Also (round 13): an auto-resize destroy forgets caller_resize_attr once it has handed the attribute back, so that a resize step in flight creates its helper threads with default attributes (C09.attr).'

META["explanation"] += " " + "Also (round 14): the locks held across the hash table's grace-period waits are acquired offline (C09.gpmutex; genuine defect fixed in /repo ac4b599); pause_worker returns only once the worker acknowledged PAUSED."

RULES = [
    ("C09.pow2", rule_pow2),
    ("C09.size", rule_size),
    ("C09.order", rule_order),
    ("C09.loop", rule_loop),
    ("C09.countorder", rule_countorder),
    ("C09.partition", rule_partition),
    ("C09.chain", lambda c, r: lfht.rule_chain(c, r, "C09.chain")),
    ("C09.bucket", lambda c, r: lfht.rule_bucket(c, r, "C09.bucket")),
    ("C09.wqwake", rule_wqwake),
    ("C09.floor", rule_floor),
    ("C09.wqguard", lambda c, r: lfht.rule_wqguard(c, r, "C09.wqguard")),
    ("C09.emptywalk", lambda c, r: lfht.rule_emptywalk(c, r, "C09.emptywalk")),
    ("C09.gc", lambda c, r: lfht.rule_gc(c, r, "C09.gc")),
    ("C09.tables", lambda c, r: lfht.rule_mm(c, r, "C09.tables")),
    ("C09.newparams", lambda c, r: lfht.rule_newparams(c, r, "C09.newparams")),   # bucket memory of a level is allocated (again) before the level is published   # a shrink unlinks the level's bucket nodes before freeing it
    ("C09.wq", lambda c, r: __import__("sa.rules.wq", fromlist=["x"]).rule_workqueue(c, r, "C09.wq")),   # the work queue that executes resizes / deferred destroys
    ("C09.wqpause", lambda c, r: pat.shared(__import__("sa.rules.c16", fromlist=["x"]).rule_pause, "C09.wqpause", lambda x: "workqueue." in x["instance"] or x["status"] != "pass")(c, r)),   # a resize in flight at fork(): the worker is parked (PAUSED acknowledged) before the fork, or the child inherits resize_mutex locked by a thread that does not exist
    ("C09.gpmutex", lambda c, r: __import__("sa.rules.lfht2", fromlist=["x"]).rule_gpmutex(c, r, "C09.gpmutex")),   # cds_lfht_resize() returns: nobody waits online for the mutex that is held across the shrink's grace period
    ("C09.attr", lambda c, r: __import__("sa.rules.lfht2", fromlist=["x"]).rule_attr_handback(c, r, "C09.attr")),   # a resize step in flight when an auto-resize table is destroyed must not create its helper threads from the attribute the caller was handed back
    ("C09.partition_thread", lambda c, r: __import__("sa.rules.lfht2", fromlist=["x"]).rule_partition_thread(c, r, "C09.partition_thread")),
    ("C09.levels", lambda c, r: __import__("sa.rules.lfht2", fromlist=["x"]).rule_levels(c, r, "C09.levels")),
    ("C09.dispatch", lambda c, r: __import__("sa.rules.lfht2", fromlist=["x"]).rule_dispatch(c, r, "C09.dispatch")),
    ("C09.partloops", lambda c, r: __import__("sa.rules.lfht2", fromlist=["x"]).rule_partloops(c, r, "C09.partloops")),
    ("C09.explicit_resize", lambda c, r: __import__("sa.rules.lfht2", fromlist=["x"]).rule_explicit_resize(c, r, "C09.explicit_resize")),
    ("C09.newfields", lambda c, r: __import__("sa.rules.lfht2", fromlist=["x"]).rule_newfields(c, r, "C09.newfields")),
    ("C09.workcb", lambda c, r: __import__("sa.rules.lfht2", fromlist=["x"]).rule_workcb(c, r, "C09.workcb")),
    ("C09.orders", lambda c, r: __import__("sa.rules.lfht2", fromlist=["x"]).rule_orders(c, r, "C09.orders")),
    ("C09.urcuref", lambda c, r: __import__("sa.rules.c04", fromlist=["x"]).rule_urcuref(c, r, "C09.urcuref")),   # the work queue completion (flush before destroy) is reference counted
    ("C09.rs", lambda c, r: lfht.rule_rs(c, r, "C09.rs")),   # populating / removing a level walks and edits chains inside a read-side section of the thread doing it (a section held by the dispatcher does not cover its worker threads)
    ("C09.mmcases", lambda c, r: __import__("sa.rules.lfht2", fromlist=["x"]).rule_mm_cases(c, r, "C09.mmcases")),
    ("C09.alloc", lambda c, r: __import__("sa.rules.lfht2", fromlist=["x"]).rule_allocdiscipline(c, r, "C09.alloc")),   # memory of a table goes through its cds_lfht_alloc only
]
FLOORS = {"C09.pow2": 4}
