"""C05 — hash table: concurrent ops linearizable; resident nodes never missed (partial)."""
from . import lfht, c09

META = {
    "explanation": "All-paths rules on liburcu-cds: publication order of new nodes (next set, same snapshot, then cmpxchg; reverse_hash before size is sampled), reader filter atoms of "
                   "lookup/next/next_duplicate (a node is returned only with REMOVED and BUCKET clear in the word it was read with, equal hash and match; consume loads; strict order stop), "
                   "size acquire/release and grow order allocate ≺ populate ≺ publish, shrink order publish ≺ GP ≺ unlink ≺ GP ≺ free, bucket selection hash & (size-1) and bucket "
                   "reverse hashes, resize partitions inside read-side sections, exactness of the bit-reversal table and byte placement; atomic-step shapes of replace, del and gc_bucket (shared with C06/C07).",
    "not_decided": "linearizability; that these mechanisms suffice for `never missed` under all interleavings",
}

META["explanation"] += " " + 'Also: iterator continuation discipline (one snapshot of node->next per visited node; iter->next is that snapshot; traversal resumes from it), bucket placement compares the cursor node, partitioned populate/remove covers the whole level on every return path.'
META["explanation"] += " " + 'Also (round 11): a new bucket node is linked in front of resident nodes of equal reverse hash, an insertion helps unlink only nodes seen REMOVED, no table access between thread_offline() and thread_online().'


META["explanation"] += " " + 'Also (round 14): bucket memory is private anonymous memory (mmap arguments); the emptiness walk gives back the read-side state it took.'

RULES = [
    ("C05.pub", lambda c, r: lfht.rule_pub(c, r, "C05.pub")),
    ("C05.mmapargs", lambda c, r: lfht.rule_mmapargs(c, r, "C05.mmapargs")),   # bucket memory is private anonymous memory: shared with a forked child, the child's updates rewrite the parent's chains
    ("C05.filter", lambda c, r: lfht.rule_filter(c, r, "C05.filter")),
    ("C05.size", lambda c, r: lfht.rule_grow(c, r, "C05.size")),
    ("C05.shrink", lambda c, r: lfht.rule_shrink(c, r, "C05.shrink")),
    ("C05.bucket", lambda c, r: lfht.rule_bucket(c, r, "C05.bucket")),
    ("C05.rs", lambda c, r: lfht.rule_rs(c, r, "C05.rs")),
    ("C05.rev", lambda c, r: lfht.rule_rev(c, r, "C05.rev")),
    ("C05.replace", lambda c, r: lfht.rule_replace(c, r, "C05.replace")),
    ("C05.del", lambda c, r: lfht.rule_del(c, r, "C05.del")),
    ("C05.gc", lambda c, r: lfht.rule_gc(c, r, "C05.gc")),
    ("C05.iter", lambda c, r: lfht.rule_iter(c, r, "C05.iter")),
    ("C05.chain", lambda c, r: lfht.rule_chain(c, r, "C05.chain")),
    ("C05.partition", lambda c, r: c09.rule_partition(c, r, "C05.partition")),
    ("C05.unique", lambda c, r: lfht.rule_unique(c, r, "C05.unique")),
    ("C05.bucketat", lambda c, r: lfht.rule_bucketat(c, r, "C05.bucketat")),
    ("C05.addskel", lambda c, r: __import__("sa.rules.lfht2", fromlist=["x"]).rule_addskel(c, r, "C05.addskel")),
    ("C05.entry", lambda c, r: __import__("sa.rules.lfht2", fromlist=["x"]).rule_entry(c, r, "C05.entry")),
    ("C05.partition_thread", lambda c, r: __import__("sa.rules.lfht2", fromlist=["x"]).rule_partition_thread(c, r, "C05.partition_thread")),
    ("C05.levels", lambda c, r: __import__("sa.rules.lfht2", fromlist=["x"]).rule_levels(c, r, "C05.levels")),
    ("C05.gcskel", lambda c, r: __import__("sa.rules.lfht2", fromlist=["x"]).rule_gcskel(c, r, "C05.gcskel")),
    ("C05.addprev", lambda c, r: __import__("sa.rules.lfht2", fromlist=["x"]).rule_addprev(c, r, "C05.addprev")),
    ("C05.partloops", lambda c, r: __import__("sa.rules.lfht2", fromlist=["x"]).rule_partloops(c, r, "C05.partloops")),
    ("C05.createbucket", lambda c, r: __import__("sa.rules.lfht2", fromlist=["x"]).rule_createbucket(c, r, "C05.createbucket")),
    ("C05.online", lambda c, r: lfht.rule_online(c, r, "C05.online")),   # an offline thread is not a reader: no table access between thread_offline() and thread_online()
    ("C05.walkstart", lambda c, r: __import__("sa.rules.lfht2", fromlist=["x"]).rule_walkstart(c, r, "C05.walkstart")),   # whole-table walks start at bucket 0
    ("C05.rhinit", lambda c, r: __import__("sa.rules.lfht2", fromlist=["x"]).rule_rhinit(c, r, "C05.rhinit")),   # node->reverse_hash = bit_reverse_ulong(hash) before linking, in every entry point
]
FLOORS = {}
